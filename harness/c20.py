#!/usr/bin/env python3
"""C20 — the web front end runs only the manifest's scripts, escaped, without duplicates.

Real `WebApp` / `FrontEnd` / `JobControl` behind a stub of the Flask API (Flask is not
installed); `ScriptJob.from_file` is observed and returns jobs whose completion the harness
controls (they block on an Event; completing = set it and join the agent's thread — nothing
sleeps or polls).  Every case is a manifest plus a sequence of requests and job completions.

* oracle (`Oracle`): the clauses of the property evaluated on what was recorded (files
  opened, jobs handed to job control, stop requests received by which job, template contexts);
* correspondence: the same manifest and sequence through the Lean `Bardolph.Web.handle`.
"""
import html
import json
import os
import re
import shutil
import sys
import tempfile
import threading
import types

sys.path.insert(0, os.path.dirname(os.path.abspath(__file__)))
from core import Check, InfraError, REPO, run_check  # noqa: E402

WAIT = 20.0      # only a guard against a hung thread; never reached on a healthy run


# ============================================================== stub of the Flask API
class Rendered:
    """what `render_template` returned: template name + a frozen copy of the context"""

    def __init__(self, name, ctx):
        self.name = name
        self.ctx = ctx


class StubBlueprint:
    def __init__(self, name, import_name, **_):
        self.name = name
        self.rules = []

    def route(self, rule, **_):
        def deco(fn):
            self.rules.append((rule, fn))
            return fn
        return deco


class StubHeaders(dict):
    pass


class StubRequest:
    headers = StubHeaders({'User-Agent': 'Mozilla/5.0 (X11; Linux x86_64)'})


def freeze_script(sc):
    return {k: getattr(sc, k, None) for k in
            ('file_name', 'path', 'title', 'background', 'color', 'icon', 'run_background', 'running')}


def stub_render_template(name, **ctx):
    frozen = {}
    for key, val in ctx.items():
        if key == 'script':
            frozen[key] = freeze_script(val)      # AttributeError for None, as Jinja would fail
        elif key == 'scripts':
            frozen[key] = [freeze_script(s) for s in val]
        elif key == 'data':
            frozen[key] = {
                'current_job': None if val['current_job'] is None else val['current_job'].name,
                'queued_jobs': [a.name for a in (val['queued_jobs'] or [])],
                'background_jobs': [a.name for a in list(val['background_jobs'] or [])],
                'lights': val['lights'], 'py_version': val['py_version']}
        else:
            frozen[key] = val
    return Rendered(name, frozen)


def install_flask_stub():
    mod = types.ModuleType('flask')
    mod.Blueprint = StubBlueprint
    mod.render_template = stub_render_template
    mod.request = StubRequest()
    mod.Flask = object
    sys.modules['flask'] = mod
    return mod


# ============================================================== specification (independent)
ESC = {'&': '&amp;', '<': '&lt;', '>': '&gt;', '"': '&quot;', "'": '&#x27;'}
ENTITY = re.compile(r'&(amp|lt|gt|quot|#x27);')


def spec_escape(s):
    return ''.join(ESC.get(ch, ch) for ch in s)


def spec_is_escaped(s):
    """no < > \" ' and every & starts one of the five character references"""
    if any(ch in s for ch in '<>"\''):
        return False
    return '&' not in ENTITY.sub('', s)


def spec_path(cfg):
    """manual: the path is the explicit one, else the base name of the file (`.ls` removed)"""
    p = cfg.get('path') or ''
    if p != '':
        return p
    f = cfg['file_name']
    return f[:len(f) - 3] if f.endswith('.ls') else f


def spec_title(cfg):
    """manual: explicit title, else the path with `_`/`-` → space and every word capitalised"""
    t = cfg.get('title') or ''
    if t != '':
        return t
    src = ''.join(' ' if ch in '_-' else ch for ch in spec_path(cfg))
    if not src.isascii():
        return src.title()      # non-ASCII letters: Python's own notion of a cased character
    out, prev_letter = [], False
    for ch in src:
        letter = ('a' <= ch <= 'z') or ('A' <= ch <= 'Z')
        out.append((ch.lower() if prev_letter else ch.upper()) if letter else ch)
        prev_letter = letter
    return ''.join(out)


def listed(manifest, p):
    return [cfg for cfg in manifest if spec_path(cfg) == p]


# ============================================================== instrumentation
class InstrumentedJob:
    def __init__(self, world, serial, file_name, inner):
        self.world = world
        self.serial = serial
        self.file_name = file_name
        self.inner = inner
        self.started = threading.Event()
        self.release = threading.Event()
        self.done = False
        self.timed_out = False

    def execute(self):
        self.started.set()
        if not self.release.wait(WAIT):
            self.timed_out = True

    def request_stop(self):
        self.world.events.append(('stop', self.serial))


LIGHT_SETS = {'large': None, 'none': (), 'small': (('light_1', 'a', 'b'), ('light_2', 'group', 'loc'),
                                                    ('light_0', 'group', 'loc'))}


class World:
    """one WebApp over one manifest in a scratch directory, with everything observed"""

    def __init__(self, env, manifest, script_path='scripts'):
        self.env = env
        self.manifest = manifest
        self.script_path = script_path
        self.events = []            # ('open', serial, fname) ('hand', kind, serial, name) ('stop', serial)
        self.jobs = []              # InstrumentedJob by serial
        self.agents = {}            # serial -> Agent
        self.kind = {}              # serial -> 'add' | 'spawn'
        self.dir = tempfile.mkdtemp(prefix='c20_', dir=env.root)
        os.mkdir(os.path.join(self.dir, 'web'))
        os.makedirs(os.path.join(self.dir, script_path), exist_ok=True)
        with open(os.path.join(self.dir, 'web', 'manifest.json'), 'w') as f:
            json.dump(manifest, f)
        self.real_files = {}
        for idx, cfg in enumerate(manifest):
            name = cfg['file_name']
            if env.fs_safe(name):
                path = os.path.join(self.dir, script_path, name)
                if not os.path.exists(path):
                    with open(path, 'w') as f:
                        f.write('define c20_entry_{} {}\nprint {}\n'.format(idx, idx, idx))
                self.real_files[os.path.join(script_path, name)] = idx
        os.chdir(self.dir)
        env.settings.using(dict(env.base_settings, script_path=script_path)).configure()
        env.ScriptJob.from_file = staticmethod(self._from_file)
        # the lights on the network: the fake API's large set, three lights, or none at all (the
        # status and capture pages have to render whatever is there)
        from bardolph.controller import light_set
        from bardolph.fakes import fake_light_api
        specs = LIGHT_SETS[getattr(env, 'lights', 'large')]
        (fake_light_api.using_large_set() if specs is None else fake_light_api.using(specs)).configure()
        light_set.configure()
        self.app = env.web_app.WebApp()
        env.injection.bind_instance(self.app).to(env.i_web.WebApp)
        jc = self.app._jobs
        self.jc = jc
        orig_add, orig_spawn = jc.add_job, jc.spawn_job

        def add_job(job, name=None):
            self.events.append(('hand', 'add', getattr(job, 'serial', None), name))
            agent = orig_add(job, name)
            self._remember(job, agent, 'add')
            return agent

        def spawn_job(job, name):
            self.events.append(('hand', 'spawn', getattr(job, 'serial', None), name))
            agent = orig_spawn(job, name)
            self._remember(job, agent, 'spawn')
            return agent
        jc.add_job, jc.spawn_job = add_job, spawn_job

    def _remember(self, job, agent, kind):
        serial = getattr(job, 'serial', None)
        if serial is not None:
            self.agents[serial] = agent
            self.kind[serial] = kind

    def _from_file(self, fname):
        serial = len(self.jobs)
        inner = None
        if fname in self.real_files:
            inner = self.env.orig_from_file(fname)
        job = InstrumentedJob(self, serial, fname, inner)
        self.jobs.append(job)
        self.events.append(('open', serial, fname))
        return job

    # ---- ground truth about the instrumented jobs
    def executing(self, serial):
        job = self.jobs[serial]
        return job.started.is_set() and not job.done

    def executing_serials(self):
        return [j.serial for j in self.jobs if self.executing(j.serial)]

    def settle(self):
        """wait until every agent thread that job control has started is inside execute()"""
        agents = []
        cur = self.jc.get_current()
        if cur is not None:
            agents.append(cur)
        agents.extend(list(self.jc.get_background()))
        for agent in agents:
            job = agent.job
            if isinstance(job, InstrumentedJob) and agent._thread is not None:
                if not job.started.wait(WAIT):
                    raise InfraError('job thread did not start')

    def complete(self, serial):
        """the job finishes now (no-op for a job that is not executing)"""
        if serial >= len(self.jobs) or not self.executing(serial):
            return False
        job = self.jobs[serial]
        agent = self.agents.get(serial)
        job.release.set()
        job.done = True
        if agent is not None and agent._thread is not None:
            agent._thread.join(WAIT)
            if agent._thread.is_alive():
                raise InfraError('job thread did not end')
        self.settle()
        return True

    def jc_state(self):
        def ser(agent):
            return getattr(agent.job, 'serial', None)
        cur = self.jc.get_current()
        return (None if cur is None else ser(cur), [ser(a) for a in self.jc.get_queued()],
                [ser(a) for a in list(self.jc.get_background())])

    def close(self):
        self.jc.clear_queue()       # nothing may start any more; then let the running ones end
        for job in self.jobs:
            job.release.set()
            job.done = True
        for agent in list(self.agents.values()):
            if agent._thread is not None:
                agent._thread.join(WAIT)
        os.chdir(self.env.root)
        shutil.rmtree(self.dir, ignore_errors=True)


class Env:
    """process-wide set-up: flask stub, injection, fake lights, the front-end module"""

    def __init__(self):
        import logging
        logging.disable(logging.CRITICAL)
        if REPO not in sys.path:
            sys.path.insert(0, REPO)
        self.cwd0 = os.getcwd()
        self.root = tempfile.mkdtemp(prefix='c20root_')
        install_flask_stub()
        from bardolph.lib import injection, settings
        from bardolph.controller import light_module
        from bardolph.controller.script_job import ScriptJob
        from bardolph.runtime import runtime_module
        self.injection, self.settings, self.ScriptJob = injection, settings, ScriptJob
        self.base_settings = {
            'log_level': logging.CRITICAL, 'log_to_console': True, 'use_fakes': True,
            'sleep_time': 0.0, 'single_light_discover': True, 'script_path': 'scripts'}
        os.chdir(self.root)
        injection.configure()
        settings.using(self.base_settings).configure()
        light_module.configure()
        runtime_module.configure()
        from web import i_web, web_app
        self.web_app, self.i_web = web_app, i_web
        self.orig_from_file = ScriptJob.from_file
        os.makedirs(os.path.join(self.root, 'web'), exist_ok=True)
        with open(os.path.join(self.root, 'web', 'manifest.json'), 'w') as f:
            f.write('[]')
        injection.bind_instance(web_app.WebApp()).to(i_web.WebApp)
        from web import front_end
        self.front_end = front_end
        self.rules = list(front_end.blueprint.rules)
        self.thread_errors = []
        self._excepthook0 = threading.excepthook
        threading.excepthook = lambda a: self.thread_errors.append(
            '{}: {}'.format(a.exc_type.__name__, a.exc_value))

    @staticmethod
    def fs_safe(name):
        return (name not in ('', '.', '..') and '/' not in name and '\x00' not in name
                and len(name.encode('utf-8')) < 200)

    def dispatch(self, url):
        """the blueprint's rules with Werkzeug's priority: fixed rules before rules with a
        variable part; a `<name>` segment is non-empty and contains no slash"""
        for rule, fn in self.rules:
            if '<' not in rule and rule == url:
                return rule, fn, ()
        for rule, fn in self.rules:
            if '<' in rule:
                rx = '^' + re.sub(r'<[^>]+>', '([^/]+)', re.escape(rule).replace(r'\<', '<').replace(r'\>', '>')) + '$'
                m = re.match(rx, url, re.S)
                if m:
                    return rule, fn, m.groups()
        return None, None, ()

    def close(self):
        threading.excepthook = self._excepthook0
        self.ScriptJob.from_file = self.orig_from_file
        os.chdir(self.cwd0)
        shutil.rmtree(self.root, ignore_errors=True)


# ============================================================== running one case
USER_AGENTS = ['Mozilla/5.0 (X11; Linux x86_64)', 'Mozilla/5.0 (Linux; Android 10)',
               'Mozilla/5.0 (iPhone; CPU iPhone OS 13_0)', 'Mozilla/5.0 (SMART-TV; Linux; Tizen 5.0) SmartTV']


def classify(inp, env):
    """input string -> (kind, path, route name, callable)"""
    fe = env.front_end.fe
    tag, arg = inp[0], inp[1:]
    if tag == 'c':
        return 'complete', int(arg), None, None
    if tag == 'r':
        return 'run', arg, 'run', lambda: fe.run_script(arg)
    if tag == 's':
        return 'stop', arg, 'stop', lambda: fe.stop_script(arg)
    rule, fn, groups = env.dispatch(arg)
    if rule is None:
        return 'notfound', None, None, None
    kind = {'/': 'index', '/capture': 'capture', '/off': 'off', '/status': 'status',
            '/stop/<script_path>': 'stop', '/stop-current': 'stop-current',
            '/stop-all': 'stop-all', '/<script_path>': 'run'}.get(rule, 'other:' + rule)
    return kind, (groups[0] if groups else None), kind, (lambda: fn(*groups))


class StepRecord:
    pass


def run_case(env, manifest, inputs, ua_seed=0):
    """returns (list of StepRecord, World) — the world is closed already"""
    world = World(env, manifest)
    steps = []
    del env.thread_errors[:]
    try:
        for k, inp in enumerate(inputs):
            st = StepRecord()
            st.inp = inp
            st.kind, st.path, st.route, call = classify(inp, env)
            st.exec_before = world.executing_serials()
            st.fg_before = [s for s in st.exec_before if world.kind.get(s) == 'add']
            st.jc_before = world.jc_state()
            n0 = len(world.events)
            st.response, st.error = None, None
            if st.kind == 'complete':
                st.completed = world.complete(st.path)
            elif st.kind == 'notfound':
                pass
            else:
                sys.modules['flask'].request.headers['User-Agent'] = USER_AGENTS[(ua_seed + k) % len(USER_AGENTS)]
                try:
                    st.response = call()
                except Exception as ex:  # noqa: the property says no handler may raise
                    st.error = type(ex).__name__ + ': ' + str(ex)[:120]
                world.settle()
            st.events = world.events[n0:]
            st.jc_after = world.jc_state()
            st.exec_after = world.executing_serials()
            st.snapshot_file = os.path.exists(os.path.join(world.script_path, '__snapshot__.ls'))
            steps.append(st)
        for job in world.jobs:
            if job.timed_out:
                raise InfraError('an instrumented job timed out')
    finally:
        world.close()
    world.thread_errors = list(env.thread_errors)
    return steps, world


# ============================================================== oracle
class Oracle:
    """the clauses of C20 evaluated on the observations of one case"""

    def __init__(self, manifest, steps, world):
        self.m = manifest
        self.steps = steps
        self.w = world
        self.found = []     # (signature, what, step index)
        self.job_path = {}  # serial -> request path it was started for

    def bad(self, sig, what, k):
        self.found.append((sig, what, k))

    def run(self):
        for err in getattr(self.w, 'thread_errors', []):
            self.bad('agent-thread-raises:' + err.split(':')[0],
                     'an exception escaped a job-control agent thread: ' + err, len(self.steps) - 1)
        for k, st in enumerate(self.steps):
            opens = [e for e in st.events if e[0] == 'open']
            hands = [e for e in st.events if e[0] == 'hand']
            stops = [e[1] for e in st.events if e[0] == 'stop']
            if st.kind in ('complete', 'notfound'):
                if opens or hands or stops:
                    self.bad('spontaneous-job-activity', 'jobs started/stopped without a request', k)
                continue
            if st.error is not None:
                exc = st.error.split(':')[0]
                if st.kind in ('status', 'capture'):
                    self.bad('page-raises:{}:{}'.format(st.kind, exc),
                             'the {} page raises {}'.format(st.kind, st.error), k)
                else:
                    self.bad('route-raises:{}:{}'.format(st.kind, exc),
                             'the {} handler raises {}'.format(st.kind, st.error), k)
            if st.kind in ('run', 'off'):
                self.check_start(k, st, 'off' if st.kind == 'off' else st.path, opens, hands)
            else:
                if opens or hands:
                    self.bad('start-by-non-run-route:' + st.kind,
                             '{} built or queued a job'.format(st.inp), k)
            if st.kind == 'run' and stops:
                self.bad('stop-by-run', 'a run request delivered request_stop', k)
            if st.kind == 'stop':
                self.check_stop_named(k, st, stops)
            if st.kind == 'stop-current':
                if sorted(stops) != sorted(st.fg_before):
                    self.bad('stop-current-wrong-target',
                             'stop-current stopped jobs {} while the current job is {}'.format(
                                 stops, st.fg_before), k)
            if st.kind in ('stop-current', 'stop', 'status', 'capture', 'index') and st.error is None and \
                    list(st.jc_after[1]) != list(st.jc_before[1]):
                # only stop-all (and a job's completion) may take waiting jobs out of the queue
                self.bad('queue-changed-by:' + st.kind,
                         '{} changed the waiting queue from {} to {}'.format(st.inp, st.jc_before[1], st.jc_after[1]), k)
            if st.kind == 'stop-all':
                if sorted(stops) != sorted(st.exec_before):
                    self.bad('stop-all-wrong-targets',
                             'stop-all stopped jobs {} while {} are running'.format(
                                 stops, st.exec_before), k)
                if st.error is None and st.jc_after[1]:
                    self.bad('stop-all-queue-not-empty',
                             'after stop-all the queue still holds {}'.format(st.jc_after[1]), k)
            if st.kind == 'off' and st.error is None:
                extra = [s for s in stops if s not in st.fg_before]
                if extra:
                    self.bad('off-stops-wrong-job', '/off stopped {}'.format(extra), k)
            if st.kind in ('status', 'capture', 'index') and stops:
                self.bad('stop-by-page:' + st.kind, 'a page delivered request_stop', k)
            if st.error is None:
                self.check_response(k, st)
        return self.found

    # ---- a request for p starts the listed script, once
    def check_start(self, k, st, p, opens, hands):
        entries = listed(self.m, p)
        if not entries:
            if opens or hands:
                self.bad('unlisted-path-starts-job',
                         'request {!r}: path {!r} is not in the manifest but {} was opened / {} handed '
                         'to job control'.format(st.inp, p, [e[2] for e in opens], [e[3] for e in hands]), k)
            return
        same_path_running = [s for s in st.exec_before if self.job_path.get(s) == p]
        if same_path_running:
            if opens or hands:
                self.bad('duplicate-start:' + st.kind,
                         'request {!r} while job {} for the same path is running: a second job was '
                         'started'.format(st.inp, same_path_running), k)
                for e in opens:
                    self.job_path[e[1]] = p
            return
        if st.error is not None:
            return
        if len(opens) != 1 or len(hands) != 1:
            self.bad('listed-path-not-started',
                     'request {!r} for a listed path that is not running: {} files opened, {} jobs '
                     'handed to job control'.format(st.inp, len(opens), len(hands)), k)
            for e in opens:
                self.job_path[e[1]] = p
            return
        _, serial, fname = opens[0]
        _, how, hserial, name = hands[0]
        self.job_path[serial] = p
        wanted = [os.path.join(self.w.script_path, cfg['file_name']) for cfg in entries]
        if fname not in wanted:
            self.bad('opened-wrong-file',
                     'request {!r}: the manifest lists {!r} for path {!r} but {!r} was opened'.format(
                         st.inp, [cfg['file_name'] for cfg in entries], p, fname), k)
            return
        if hserial != serial:
            self.bad('handed-other-job', 'the job handed to job control is not the one built', k)
        cfg = [c for c in entries if os.path.join(self.w.script_path, c['file_name']) == fname][-1]
        want_how = 'spawn' if cfg.get('run_background', False) else 'add'
        if how != want_how and not any(
                ('spawn' if c.get('run_background', False) else 'add') == how for c in entries
                if os.path.join(self.w.script_path, c['file_name']) == fname):
            self.bad('wrong-queue-or-background',
                     'request {!r}: run_background={!r} but the job was handed over by {}_job'.format(
                         st.inp, cfg.get('run_background', False), how), k)
        job = self.w.jobs[serial]
        if fname in self.w.real_files:
            if job.inner is None or not job.inner.program:
                self.bad('listed-file-not-compiled',
                         'the script file {!r} exists but the job has no program'.format(fname), k)

    def check_stop_named(self, k, st, stops):
        p = st.path
        targets = [s for s in st.exec_before if self.job_path.get(s) == p]
        if not listed(self.m, p):
            targets = []
        if sorted(stops) != sorted(targets):
            if targets and not stops:
                sig = 'stop-not-delivered:named'
            elif stops and not targets:
                sig = 'stop-delivered-to-unnamed'
            else:
                sig = 'stop-wrong-target:named'
            self.bad(sig, 'request {!r}: running jobs for that path are {} but request_stop went '
                     'to {}'.format(st.inp, targets, stops), k)

    # ---- what the pages are handed
    def check_response(self, k, st):
        r = st.response
        if not isinstance(r, Rendered):
            self.bad('no-page:' + st.kind, 'the handler returned {!r}'.format(r), k)
            return
        if st.kind == 'status' and r.name != 'status.html':
            self.bad('status-wrong-template', r.name, k)
        if st.kind == 'capture':
            if r.name != 'index.html':
                self.bad('capture-wrong-template', r.name, k)
            if not st.snapshot_file:
                self.bad('capture-writes-nothing', 'no __snapshot__.ls under script_path', k)
        views = []
        if 'script' in r.ctx:
            views.append(r.ctx['script'])
        views.extend(r.ctx.get('scripts', []))
        for v in views:
            self.check_view(k, v)
        if r.name == 'index.html':
            want = []
            for cfg in self.m:
                if spec_path(cfg) not in want:
                    want.append(spec_path(cfg))
            got = [v['path'] for v in r.ctx.get('scripts', [])]
            if got != [spec_escape(p) for p in want]:
                self.bad('index-lists-other-scripts',
                         'index lists paths {} for manifest paths {}'.format(got, want), k)
        if r.name == 'status.html':
            d = r.ctx['data']
            for name in [d['current_job']] + d['queued_jobs'] + d['background_jobs']:
                if name is not None and not spec_is_escaped(name):
                    self.bad('unescaped-field:job-name', 'status page is handed job name {!r}'.format(name), k)

    def check_view(self, k, v):
        for field in ('file_name', 'path', 'title', 'background', 'color'):
            val = v[field]
            if not isinstance(val, str) or not spec_is_escaped(val):
                self.bad('unescaped-field:' + field,
                         'a page is handed {}={!r}'.format(field, val), k)
        # the strings are those of a manifest entry (derived path and title)
        cands = [cfg for cfg in self.m if spec_escape(spec_path(cfg)) == v['path']]
        if not cands:
            self.bad('page-shows-unlisted-script', 'path {!r} is not a manifest path'.format(v['path']), k)
            return
        best = None
        for cfg in cands:
            want = {'file_name': spec_escape(cfg['file_name']), 'title': spec_escape(spec_title(cfg)),
                    'background': spec_escape(cfg['background']), 'color': spec_escape(cfg['color'])}
            diff = [f for f in want if v[f] != want[f]]
            if best is None or len(diff) < len(best[0]):
                best = (diff, want)
        diff, want = best
        if diff:
            f = diff[0]
            sig = 'title-derivation' if f == 'title' else 'field-not-escape-of-manifest:' + f
            self.bad(sig, 'page field {} is {!r}, expected {!r} (manifest entry for path {!r})'.format(
                f, v[f], want[f], v['path']), k)


# ============================================================== correspondence with the model
def enc(s):
    return '.'.join(format(ord(c), 'x') for c in s)


def dec(t):
    return '' if t == '' else ''.join(chr(int(x, 16)) for x in t.split('.'))


def model_args(manifest, inputs, stats=None):
    args = [len(manifest)]
    for cfg in manifest:
        title = cfg.get('title') or ''
        if title == '' and not spec_path(cfg).isascii():
            # the model's str.title() is ASCII-only: hand it Python's result for this entry
            title = spec_title(cfg)
            if stats is not None:
                stats['titles_passed_through_non_ascii'] = stats.get('titles_passed_through_non_ascii', 0) + 1
        args += [cfg['file_name'], cfg.get('path') or '', title, cfg['background'], cfg['color'],
                 cfg.get('icon', 'litBulb'), '1' if cfg.get('run_background', False) else '0']
    return args + list(inputs)


def impl_record(st, world):
    """the canonical record of one step as observed on the implementation (a dict)"""
    rec = {}
    r = st.response
    if st.kind == 'complete':
        rec['resp'] = ('C',)
    elif st.kind == 'notfound':
        rec['resp'] = ('N',)
    elif st.error is not None:
        rec['resp'] = ('X', st.error)
    elif not isinstance(r, Rendered):
        rec['resp'] = ('?', repr(r))
    elif r.name == 'index.html':
        rec['resp'] = ('I', [view_tuple(v) for v in r.ctx['scripts']])
    elif r.name == 'action.html':
        rec['resp'] = ('A', view_tuple(r.ctx['script']), r.ctx['icon'], r.ctx['message'])
    elif r.name == 'status.html':
        d = r.ctx['data']
        rec['resp'] = ('S', d['current_job'], d['queued_jobs'], d['background_jobs'])
    else:
        rec['resp'] = ('?', r.name)
    evs = []
    opens = {e[1]: e[2] for e in st.events if e[0] == 'open'}
    for e in st.events:
        if e[0] == 'hand':
            evs.append(('+', e[2], e[3], opens.get(e[2]), e[1] == 'spawn'))
        elif e[0] == 'stop':
            evs.append(('!', e[1]))
    if st.kind == 'capture' and st.error is None and st.snapshot_file:
        evs.append(('snap',))
    rec['events'] = evs
    rec['jc'] = st.jc_after
    return rec


def view_tuple(v):
    return (v['file_name'], v['path'], v['title'], v['background'], v['color'], v['icon'],
            bool(v['run_background']), bool(v['running']))


def parse_view(t):
    f = t.split(',')
    return (dec(f[0]), dec(f[1]), dec(f[2]), dec(f[3]), dec(f[4]), dec(f[5]), f[6] == '1', f[7] == '1')


def model_record(text, script_path):
    resp, evs, jc = text.split('#')
    rec = {}
    if resp in ('C', 'N'):
        rec['resp'] = (resp,)
    elif resp[0] == 'I':
        rec['resp'] = ('I', [parse_view(t) for t in resp[1:].split(';')] if resp[1:] else [])
    elif resp[0] == 'A':
        v, icon, msg = resp[1:].split(':')
        rec['resp'] = ('A', parse_view(v), dec(icon), dec(msg))
    elif resp[0] == 'S':
        cur, q, bg = resp[1:].split(':')
        rec['resp'] = ('S', None if cur == '-' else dec(cur),
                       [dec(x) for x in q.split(',')] if q else [],
                       [dec(x) for x in bg.split(',')] if bg else [])
        # an empty name and an empty list look alike on the wire; the harness never uses the
        # empty path as a job name together with a status request
    else:
        rec['resp'] = ('?', resp)
    out = []
    for e in (evs.split(';') if evs else []):
        if e.startswith('+'):
            i, name, file, bg, _req = e[1:].split(',')
            out.append(('+', int(i), dec(name), os.path.join(script_path, dec(file)), bg == '1'))
        elif e.startswith('!'):
            out.append(('!', int(e[1:])))
        else:
            out.append(('snap',))
    rec['events'] = out
    a, q, b = jc.split(',')

    def ids(t):
        return [int(x) for x in t.split('.')] if t else []
    rec['jc'] = (None if a == '-' else int(a), ids(q), ids(b))
    return rec


# ============================================================== generators
HOSTILE = ['a&b', '<b>', "it's", 'x"y', 'a&amp;b', '&lt;b&gt;', '../up', 'dir/sub', '/abs/x', 'ünï-çode_x',
           'ALL-caps_NAME', 'mIxEd_case-name', 'two  spaces', 'tab\there', 'a.ls.b', 'x.ls', '.ls', 'ls',
           'é', 'ǆ-digraph', 'straße_x', '1st-2nd_3rd', "o'neil-mc_x", '<script>alert(1)</script>',
           'a&#x27;b', '&', '&&', '<<>>', '"', "''", 'quote"inside', 'semi;colon', 'q?x=1&y=2', 'per%cent',
           'status', 'capture', 'off', 'stop', 'stop-all', 'stop-current', 'index', 'static']
COLORS = ['#222', 'Linen', 'rgb(21, 139, 168)', 'red" onmouseover="alert(1)', "blue' x='y", '</style><script>',
          'a&b', '&amp;', 'url(javascript:x)', 'ünï', '', '<', 'white; background: url("x")']
SUFFIXES = ['.ls', '.ls', '.ls', '', '.ls.ls', '.lsx', '.LS', '.l', 'ls', '.ls ', '/x.ls']
ALPHA = 'abAB.ls_-&<>"\' /é1'


def rnd_string(rng, lo=0, hi=8):
    return ''.join(rng.choice(ALPHA) for _ in range(rng.randint(lo, hi)))


def gen_file_name(rng, used):
    r = rng.random()
    if used and r < 0.12:
        return rng.choice(used)
    if r < 0.62:
        return rng.choice(HOSTILE) + rng.choice(SUFFIXES)
    if r < 0.67:
        return rng.choice(['.ls', '.ls.ls', 'ls', '', '..', '.'])
    return rnd_string(rng, 0, 7) + rng.choice(SUFFIXES)


def gen_manifest(rng, specials=True):
    n = rng.choice([0, 1, 2, 3, 3, 4, 4, 5, 6, 8])
    manifest, files, paths = [], [], []
    for _ in range(n):
        cfg = {'file_name': gen_file_name(rng, files)}
        files.append(cfg['file_name'])
        r = rng.random()
        if r < 0.30:
            q = rng.random()
            if paths and q < 0.2:
                cfg['path'] = rng.choice(paths)                      # duplicate path
            elif paths and q < 0.3:
                cfg['path'] = html.escape(rng.choice(paths))         # escaped variant of another
            elif files and q < 0.4:
                cfg['path'] = rng.choice(files)                      # another entry's file name
            elif specials and q < 0.6:
                cfg['path'] = rng.choice(['off', 'stop-all', 'stop-current', 'status', 'capture', 'stop'])
            else:
                cfg['path'] = rng.choice(HOSTILE) if rng.random() < 0.7 else rnd_string(rng, 1, 6)
        elif r < 0.36:
            cfg['path'] = ''
        r = rng.random()
        if r < 0.25:
            cfg['title'] = rng.choice(HOSTILE + COLORS)
        elif r < 0.30:
            cfg['title'] = ''
        r = rng.random()
        if r < 0.25:
            cfg['run_background'] = True
        elif r < 0.35:
            cfg['run_background'] = False
        cfg['background'] = rng.choice(COLORS)
        cfg['color'] = rng.choice(COLORS)
        if rng.random() < 0.15:
            cfg['icon'] = rng.choice(['colorBulb', 'darkBulb', 'x"y', '<i>'])
        manifest.append(cfg)
        paths.append(spec_path(cfg))
    return manifest


def variants(rng, p):
    return rng.choice([html.escape(p), html.unescape(p), p + '.ls', p[:-3] if p.endswith('.ls') else p + 'x',
                       p.upper(), p.lower(), p.title(), p.replace('-', ' '), ' ' + p, p + ' ', p[1:], p[:-1],
                       'scripts/' + p, '../' + p, html.escape(html.escape(p))])


def url_or_direct(kind, p):
    """a path reaches the handler through the URL map when a URL can carry it, else directly"""
    if p == '':
        return 'g/' + ('stop/' if kind == 'stop' else '')      # no URL carries the empty path: 404
    if '/' in p:
        return ('r' if kind == 'run' else 's') + p
    return 'g/' + ('stop/' if kind == 'stop' else '') + p


def gen_inputs(rng, manifest, length):
    paths = [spec_path(cfg) for cfg in manifest]
    files = [cfg['file_name'] for cfg in manifest]
    inputs = []
    started = 0
    finished = set()
    for _ in range(length):
        r = rng.random()
        if r < 0.42 and paths:
            inputs.append(url_or_direct('run', rng.choice(paths)))
            started += 1
        elif r < 0.50:
            base = rng.choice(paths + files) if (paths and rng.random() < 0.8) else rng.choice(HOSTILE)
            inputs.append(url_or_direct('run', variants(rng, base) if rng.random() < 0.8 else base))
        elif r < 0.60 and paths:
            inputs.append(url_or_direct('stop', rng.choice(paths)))
        elif r < 0.64:
            base = rng.choice(paths + files) if paths else rng.choice(HOSTILE)
            inputs.append(url_or_direct('stop', variants(rng, base)))
        elif r < 0.68:
            inputs.append('g/stop-current')
        elif r < 0.72:
            inputs.append('g/stop-all')
        elif r < 0.75:
            inputs.append('g/status')
        elif r < 0.77:
            inputs.append('g/capture')
        elif r < 0.79:
            inputs.append('g/')
        elif r < 0.82:
            inputs.append('g/off')
        elif r < 0.83:
            inputs.append(rng.choice(['g/stop/', 'g', 'g//', 'g/a/b', 'g/stop/a/b', 'g/status/']))
        else:
            # the oldest job not yet completed is (nearly always) executing; sometimes any number
            pending = [n for n in range(started) if n not in finished]
            n = pending[0] if (pending and rng.random() < 0.7) else rng.randrange(max(1, started + 1))
            finished.add(n)
            inputs.append('c{}'.format(n))
    return inputs


FIXED_CASES = [
    # the shipped manifest's shape: special entries with an empty file name
    ([{'file_name': 'off-all.ls', 'path': 'off', 'background': '#222', 'color': 'Linen'},
      {'file_name': 'on5.ls', 'title': 'On 5 Min.', 'background': 'rgb(21, 139, 168)', 'color': 'white'},
      {'file_name': 'cycle.ls', 'run_background': True, 'background': 'b', 'color': 'c'},
      {'file_name': '', 'path': 'capture', 'title': 'Capture', 'background': 'SlateGray', 'color': 'White'},
      {'file_name': '', 'path': 'stop', 'title': 'Stop', 'background': 'Maroon', 'color': 'White'}],
     ['g/', 'g/on5', 'g/on5', 'g/cycle', 'g/cycle', 'g/status', 'g/off', 'g/off', 'g/stop/on5', 'g/stop/cycle',
      'g/stop', 'g/capture', 'g/stop-current', 'g/stop-all', 'c0', 'c1', 'c2', 'c3', 'g/status', 'g/on5', 'g/']),
    ([{'file_name': 'a&b.ls', 'background': 'x', 'color': 'y'}],
     ['g/a&b', 'g/a&b', 'g/a&amp;b', 'g/stop/a&amp;b', 'g/stop/a&b', 'c0', 'g/a&b', 'g/status']),
    ([{'file_name': "it's <b>.ls", 'run_background': True, 'background': '"', 'color': "'"}],
     ["g/it's <b>", "g/it's <b>", "g/stop/it's <b>", 'g/stop-all', 'c0', "g/it's <b>"]),
    ([{'file_name': 'x.ls', 'path': 'stop-all', 'background': 'a', 'color': 'b'},
      {'file_name': 'y.ls', 'path': 'stop-current', 'background': 'a', 'color': 'b'},
      {'file_name': 'z.ls', 'path': 'off', 'run_background': True, 'background': 'a', 'color': 'b'}],
     ['g/stop-all', 'g/stop-current', 'g/off', 'g/off', 'g/stop-all', 'c0', 'g/off', 'g/status']),
    ([], ['g/', 'g/off', 'g/stop-all', 'g/stop-current', 'g/status', 'g/capture', 'g/x', 'g/stop/x']),
    ([{'file_name': 'p.ls', 'background': 'a', 'color': 'b'}, {'file_name': 'q.ls', 'background': 'a', 'color': 'b'}],
     ['g/p', 'g/q', 'g/q', 'g/p', 'g/status', 'g/stop/q', 'g/stop/p', 'c0', 'g/stop/q', 'g/stop-current',
      'c1', 'c2', 'c3', 'g/status']),
    ([{'file_name': 'old.ls', 'path': 'dup', 'background': 'a', 'color': 'b'},
      {'file_name': 'new.ls', 'path': 'dup', 'run_background': True, 'background': 'c', 'color': 'd'},
      {'file_name': 'dup.ls', 'path': 'other', 'background': 'a', 'color': 'b'}],
     ['g/dup', 'g/dup', 'g/dup.ls', 'g/other', 'g/old', 'g/new', 'g/', 'c0', 'g/dup']),
    ([{'file_name': '.ls', 'background': 'a', 'color': 'b'}, {'file_name': 'x.ls.ls', 'background': 'a', 'color': 'b'},
      {'file_name': 'y.lsx', 'background': 'a', 'color': 'b'}, {'file_name': 'dir/z.ls', 'background': 'a', 'color': 'b'}],
     ['g/x.ls', 'g/x', 'g/y.lsx', 'g/y', 'rdir/z', 'g/z', 'sdir/z', 'g/dir/z', 'g/']),
]


# ============================================================== the check
def shrink(env, manifest, inputs, signature, budget=80):
    """drop inputs and manifest entries while the same violation signature is still found"""
    def still(m, i):
        steps, world = run_case(env, m, i)
        return any(sig == signature for sig, _, _ in Oracle(m, steps, world).run())
    changed = True
    while changed and budget > 0:
        changed = False
        for idx in range(len(inputs) - 1, -1, -1):
            if budget <= 0:
                break
            cand = inputs[:idx] + inputs[idx + 1:]
            budget -= 1
            if still(manifest, cand):
                inputs, changed = cand, True
        for idx in range(len(manifest) - 1, -1, -1):
            if budget <= 0:
                break
            cand = manifest[:idx] + manifest[idx + 1:]
            budget -= 1
            if still(cand, inputs):
                manifest, changed = cand, True
    return manifest, inputs


def check_queue_file(chk, env):
    """WebApp.queue_file(file_name, run_background): the file is opened under script_path and the
    job is queued, or spawned when run_background is set"""
    for name, bg in [('x.ls', False), ('a&b.ls', False), ('y.ls', True)]:
        world = World(env, [])
        try:
            err = None
            try:
                world.app.queue_file(name, bg) if bg else world.app.queue_file(name)
            except Exception as ex:  # noqa
                err = type(ex).__name__
            chk.count()
            opens = [e for e in world.events if e[0] == 'open']
            hands = [e for e in world.events if e[0] == 'hand']
            if err is not None:
                chk.violation('queue_file-raises:' + err,
                              'WebApp.queue_file({!r}) raises {}'.format(name, err),
                              {'call': 'queue_file', 'file_name': name, 'run_background': bg})
            elif ([e[2] for e in opens] != [os.path.join('scripts', name)]
                  or [e[1] for e in hands] != ['spawn' if bg else 'add']):
                chk.violation('queue_file-wrong-arguments',
                              'WebApp.queue_file({!r}, {}) opened {} and handed the job over by {}'.format(
                                  name, bg, [e[2] for e in opens], [e[1] for e in hands]),
                              {'call': 'queue_file', 'file_name': name, 'run_background': bg})
        finally:
            world.close()


def main():
    chk = Check('C20')
    args = sys.argv[1:]
    replay = None
    for i, a in enumerate(args):
        if a == '--replay' and i + 1 < len(args):
            with open(args[i + 1]) as f:
                replay = json.load(f).get('replay')
    chk.lean_phase(sections={'Web'})
    env = Env()
    rng = chk.rng
    stats = {'cases': 0, 'requests': 0, 'completions': 0, 'jobs_started': 0, 'stop_requests': 0,
             'route_kinds': {}, 'manifest_sizes': {}, 'real_script_files_compiled': 0}
    cases = []
    try:
        # ---- the production wiring (web_module.configure(), what wsgi.py / flask_module call): every
        # request handler asks the injector for THE web application; a repeated request can only see
        # the job an earlier request started if they are given the same object
        ini = os.path.join(env.root, 'c20.ini')
        with open(ini, 'w') as f:
            f.write('[settings]\nuse_fakes = True\nlog_to_console = False\n')
        old_ini = os.environ.get('BARDOLPH_INI')
        os.environ['BARDOLPH_INI'] = ini
        try:
            os.chdir(env.root)
            from web import web_module
            web_module.configure()
            first = env.injection.provide(env.i_web.WebApp)
            second = env.injection.provide(env.i_web.WebApp)
            chk.count()
            if first is not second or first._jobs is not second._jobs:
                chk.violation('web-app-not-shared-between-requests',
                              'after web_module.configure() two requests are handed two different WebApp '
                              'objects (each with its own job control): a job started by one request is '
                              'unknown to the next', {'how': 'web_module.configure(); provide(WebApp) twice'})
        finally:
            if old_ini is None:
                os.environ.pop('BARDOLPH_INI', None)
            else:
                os.environ['BARDOLPH_INI'] = old_ini
            env.settings.using(env.base_settings).configure()
            env.injection.bind_instance(env.web_app.WebApp()).to(env.i_web.WebApp)
        # ---- derivation and escaping, function level (no threads)
        deriv = []
        n_deriv = 4000 if not chk.thorough else 40000
        for _ in range(n_deriv):
            cfg = {'file_name': gen_file_name(rng, [])}
            if rng.random() < 0.3:
                cfg['path'] = rng.choice(HOSTILE + ['', rnd_string(rng)])
            if rng.random() < 0.3:
                cfg['title'] = rng.choice(HOSTILE + ['', rnd_string(rng)])
            deriv.append(cfg)
        for f in ['test-get_title.ls', 'test.ls', 'reading.ls', 'all-off.ls', 'x.ls.ls', '.ls', 'ls', 'a.lsls',
                  'hELLO-wORLD2b.ls', "o'neil.ls", 'a1b2c.ls', 'x_-_y.ls', 'a.ls/b', 'A.LS']:
            deriv.append({'file_name': f})
        app0 = env.web_app.WebApp()
        derive_requests = []
        for cfg in deriv:
            chk.count()
            try:
                got_p, got_t = app0.get_script_path(dict(cfg)), app0.get_script_title(dict(cfg))
            except Exception as ex:  # noqa
                chk.violation('derivation-raises', 'get_script_path/title raise {}'.format(type(ex).__name__),
                              {'entry': cfg})
                continue
            if got_p != spec_path(cfg):
                chk.violation('path-derivation',
                              'get_script_path({!r}) = {!r}, documented: {!r}'.format(cfg, got_p, spec_path(cfg)),
                              {'entry': cfg, 'got': got_p, 'want': spec_path(cfg)})
            if got_t != spec_title(cfg):
                chk.violation('title-derivation',
                              'get_script_title({!r}) = {!r}, documented: {!r}'.format(cfg, got_t, spec_title(cfg)),
                              {'entry': cfg, 'got': got_t, 'want': spec_title(cfg)})
            chk.nontrivial_case(('derive', cfg['file_name'], cfg.get('path'), cfg.get('title')))
            if spec_path(cfg).isascii() or (cfg.get('title') or '') != '':
                derive_requests.append((('web.derive', [cfg['file_name'], cfg.get('path') or '', cfg.get('title') or '']),
                                        enc(got_p) + ',' + enc(got_t), cfg))
        stats['derivations'] = len(deriv)
        esc_requests = []
        strings = list(HOSTILE) + list(COLORS) + [rnd_string(rng, 0, 12) for _ in range(2000 if not chk.thorough else 20000)]
        for s in strings:
            chk.count()
            got = html.escape(s)
            if got != spec_escape(s) or not spec_is_escaped(got) or html.unescape(got) != s:
                chk.violation('html-escape-differs', 'html.escape({!r}) = {!r}'.format(s, got), {'string': s})
            esc_requests.append((('web.escape', [s]), enc(got), s))
            esc_requests.append((('web.roundtrip', [s]), enc(html.unescape(got)), s))
        stats['escape_strings'] = len(strings)
        route_requests = []
        for url in ['/', '/capture', '/off', '/status', '/stop-current', '/stop-all', '/stop', '/stop/', '/stop/x',
                    '/stop/a&b', '/stop/x/y', '/x', '/x/', '/x/y', '', '//', '/stop-all/', '/status2', '/Status',
                    '/stop/stop', '/stop/ ', '/ ', '/a&amp;b'] + ['/' + h for h in HOSTILE] + \
                   ['/stop/' + h for h in HOSTILE]:
            kind, p, _, _ = classify('g' + url, env)
            want = {'notfound': 'none', 'run': 'run:' + enc(p or ''), 'stop': 'stop:' + enc(p or '')}.get(kind, kind)
            route_requests.append((('web.route', [url]), want, url))
            chk.count()
        stats['urls_routed'] = len(route_requests)

        # ---- histories
        if replay is not None and 'manifest' in replay:
            cases = [(replay['manifest'], replay['inputs'])]
        else:
            cases = [(m, i) for m, i in FIXED_CASES]
            n_cases = 1500 if not chk.thorough else 15000
            for _ in range(n_cases):
                m = gen_manifest(rng)
                cases.append((m, gen_inputs(rng, m, rng.randint(4, 28))))
        model_cases = []
        reported = set()
        for ci, (m, inputs) in enumerate(cases):
            # the hand-made cases are run over each light population, every fifth random one with
            # no lights and every seventh with three
            env.lights = 'none' if ci % 5 == 4 else 'small' if ci % 7 == 6 else 'large'
            if replay is not None and 'lights' in replay:
                env.lights = replay['lights']
            stats.setdefault('light_populations', {}).setdefault(env.lights, 0)
            stats['light_populations'][env.lights] += 1
            steps, world = run_case(env, m, inputs, ua_seed=ci)
            found = Oracle(m, steps, world).run()
            stats['cases'] += 1
            stats['manifest_sizes'][len(m)] = stats['manifest_sizes'].get(len(m), 0) + 1
            for st in steps:
                chk.count()
                stats['route_kinds'][st.kind] = stats['route_kinds'].get(st.kind, 0) + 1
                if st.kind == 'complete':
                    stats['completions'] += 1 if st.completed else 0
                else:
                    stats['requests'] += 1
                stats['stop_requests'] += sum(1 for e in st.events if e[0] == 'stop')
                stats['jobs_started'] += sum(1 for e in st.events if e[0] == 'hand')
            stats['real_script_files_compiled'] += sum(1 for j in world.jobs if j.inner is not None and j.inner.program)
            if world.jobs:
                chk.nontrivial_case(('case', json.dumps(m, sort_keys=True), tuple(inputs)))
            if ci in (1, len(FIXED_CASES) + 1):
                chk.sample({'manifest': m, 'inputs': inputs,
                            'jobs': [[j.serial, j.file_name] for j in world.jobs]})
            for sig, what, k in found:
                if sig in reported:
                    chk.violation(sig, what, None)
                    continue
                reported.add(sig)
                sm, si = shrink(env, m, inputs[:k + 1], sig)
                chk.violation(sig, what, {'manifest': sm, 'inputs': si, 'signature': sig, 'lights': env.lights,
                                          'found_in': {'manifest': m, 'inputs': inputs, 'step': k}})
            model_cases.append((m, inputs, steps, world.script_path))
        check_queue_file(chk, env)
    finally:
        env.close()

    # ---- correspondence
    requests = [r for r, _, _ in derive_requests + esc_requests + route_requests]
    for m, inputs, _, _ in model_cases:
        requests.append(('web.run', model_args(m, inputs, stats)))
    answers = chk.driver.ask_many(requests)
    n_simple = len(derive_requests) + len(esc_requests) + len(route_requests)
    n_dis = 0
    for (req, want, case), got in zip(derive_requests + esc_requests + route_requests, answers[:n_simple]):
        if want != got:
            n_dis += 1
            chk.disagreement(req[0], case, want[:200], got[:200])
    for (m, inputs, steps, sp), answer in zip(model_cases, answers[n_simple:]):
        if answer.startswith('bad-'):
            raise InfraError('driver: ' + answer)
        texts = answer.split('|') if inputs else []
        if len(texts) != len(steps):
            n_dis += 1
            chk.disagreement('web.run', {'manifest': m, 'inputs': inputs}, len(steps), len(texts))
            continue
        for k, (st, text) in enumerate(zip(steps, texts)):
            impl = impl_record(st, None)
            model = model_record(text, sp)
            if impl != model:
                n_dis += 1
                part = next(key for key in ('resp', 'events', 'jc') if impl[key] != model[key])
                chk.disagreement('web.run:' + part, {'manifest': m, 'inputs': inputs, 'step': k},
                                 repr(impl[part])[:400], repr(model[part])[:400])
                break
    stats['model_requests'] = len(requests)
    stats['model_disagreements'] = n_dis
    chk.coverage['distribution'] = stats
    chk.coverage['rule'] = (
        'histories: {} hand-made + random manifests (0-8 entries; file names with HTML metacharacters, '
        'path separators, `..`, unicode, no/only/double `.ls`, duplicates; optional path/title/'
        'run_background; hostile colour strings) each with 4-28 inputs (requests over listed paths, '
        'escaped/unescaped/case/affix variants, file names, reserved routes, malformed URLs; '
        'interleaved job completions), every step judged by the oracle and compared with the Lean '
        'model; plus function-level derivation/escape/route cases.  Non-trivial = a history in which '
        'at least one job was handed to job control (distinct by manifest+inputs) or a derivation '
        'case (distinct by entry)'.format(len(FIXED_CASES)))
    chk.assumptions += [
        'manifest values are JSON strings / booleans as documented; `background` and `color` are present',
        'requests and completions are serialised (one at a time); races inside JobControl belong to C08/C09',
        "str.title() on non-ASCII letters is Python's own (the model is exact on ASCII; non-ASCII derived titles are passed to the model)",
        'URL decoding and rule matching are Werkzeug\'s; the harness dispatches on the recorded blueprint rules '
        '(fixed rules first, `<script_path>` = one non-empty segment)',
        'Jinja2 rendering itself is not exercised (not installed): a page is the template name plus its context',
        'html.unescape agrees with the five-entity decoder of the model on strings produced by html.escape '
        '(compared on every generated string)',
    ]
    if chk.thorough:
        chk.leanchecker()
    chk.finish()


if __name__ == '__main__':
    run_check(main)
