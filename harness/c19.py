#!/usr/bin/env python3
"""C19 — print, println and printf write exactly the documented text to standard output.

Streams
  1 main      generated scripts (print/println/printf with values of every kind, formats mixing
              anonymous, numbered and named fields, `\\n`, interleaved device commands) run through
              the real ScriptJob under the PRODUCTION output binding, sys.stdout captured;
              compared with (a) an independent oracle written from the property text/manual and
              (b) the Lean model's chunks rendered by Python
  2 runs      several jobs in one process, on fresh ScriptJobs and on the same one, including
              jobs that fault mid-way: nothing may leak from one run into the next
  3 parse     the model of string.Formatter().parse against the real one (exhaustive over a small
              alphabet, random beyond)
  4 items     how many values a statement takes: right and wrong value counts through the real
              compiler (accept / line-numbered rejection / never a crash) against the model
  5 raw       OUT instruction sequences the compiler never emits, through the real Machine, each
              also on a machine whose accumulator held stale values before reset()
  6 manual    the manual's own examples, literally
"""
import io
import itertools
import json
import math
import os
import re
import string
import sys

sys.path.insert(0, os.path.dirname(os.path.abspath(__file__)))
from core import Check, run_check, ROOT  # noqa: E402
import env  # noqa: E402
import simnet  # noqa: E402

POPULATION = [
    {'label': 'A', 'group': 'g', 'location': 'l', 'kind': 'plain', 'color': [0, 0, 0, 3500]},
    {'label': 'B', 'group': 'g', 'location': 'l', 'kind': 'plain', 'color': [0, 0, 0, 3500]},
]
DOC_REGS = ['hue', 'saturation', 'brightness', 'kelvin', 'duration']
REG_DEFAULT = {'hue': 0.0, 'saturation': 0.0, 'brightness': 0.0, 'kelvin': 0.0, 'duration': 0.0,
               'red': 0.0, 'green': 0.0, 'blue': 0.0, 'time': 0.0}
PROLOGUE = ('define dbl with a begin return {a * 2} end\n'
            'define greet begin return "hi" end\n'
            'define noisy begin print "n" return 2 end\n'
            'define loud with a begin printf "<{a}>" return {a + 1} end\n')


# ================================================================= wire helpers
def inner_encode(s):
    out = []
    for ch in s:
        o = ord(ch)
        if ch in '=,:;| %' or o < 32 or o > 126:
            out.append('%{:02x}'.format(o) if o < 256 else '%u{{{:x}}}'.format(o))
        else:
            out.append(ch)
    return ''.join(out)


_DEC = re.compile(r'%u\{([0-9a-fA-F]+)\}|%([0-9a-fA-F]{2})')


def inner_decode(s):
    return _DEC.sub(lambda m: chr(int(m.group(1) or m.group(2), 16)), s)


def value_arg(v):
    if v is None:
        return 'n:'
    if isinstance(v, bool):
        return 'b:1' if v else 'b:0'
    if isinstance(v, int):
        return 'i:{}'.format(v)
    if isinstance(v, float):
        return 'f:' + inner_encode(repr(v))
    if isinstance(v, str):
        return 's:' + inner_encode(v)
    return 'o:' + inner_encode(str(v))


class Opaque:
    def __init__(self, text):
        self.text = text

    def __str__(self):
        return self.text


def parse_value(s):
    kind, _, payload = s.partition(':')
    payload = inner_decode(payload)
    if kind == 'i':
        return int(payload)
    if kind == 'f':
        return float(payload)
    if kind == 's':
        return payload
    if kind == 'b':
        return payload == '1'
    if kind == 'n':
        return None
    if kind == 'o':
        return Opaque(payload)
    raise ValueError('bad value ' + s)


class RenderFault(Exception):
    def __init__(self, index):
        self.index = index


def render_model_events(answer):
    """model answer of out.run / out.instrs -> (trace, tail).  trace = canonical list of
    ('out', text) / ('dev', label).  Raises RenderFault(k) when Python rejects the k-th fmt chunk."""
    body, _, tail = answer.partition(' | ')
    trace = []
    n_fmt = 0
    for ev in body.split(' ') if body else []:
        kind, _, rest = ev.partition(':')
        if kind == 'lit':
            add_out(trace, inner_decode(rest))
        elif kind == 'val':
            add_out(trace, str(parse_value(rest)))
        elif kind == 'fmt':
            f, pos, named = rest.split(';')
            pos = [parse_value(p) for p in pos.split(',')] if pos else []
            kw = {}
            if named:
                for item in named.split(','):
                    n, _, v = item.partition('=')
                    kw[inner_decode(n)] = parse_value(v)
            try:
                text = inner_decode(f).format(*pos, **kw)
            except Exception:  # noqa: whatever str.format raises
                raise RenderFault(n_fmt)
            n_fmt += 1
            add_out(trace, text)
        elif kind == 'dev':
            trace.append(('dev', inner_decode(rest)))
        else:
            raise ValueError('bad event ' + ev)
    return trace, tail


def add_out(trace, text):
    if text == '':
        return
    if trace and trace[-1][0] == 'out':
        trace[-1] = ('out', trace[-1][1] + text)
    else:
        trace.append(('out', text))


def text_of(trace):
    return ''.join(t[1] for t in trace if t[0] == 'out')


# ================================================================= script AST
# operand: ('int', n) ('float', x) ('str', s) ('reg', name) ('var', name) ('expr', tree)
#          ('call', fname, [operand])
# tree:    ('num', v) ('reg', n) ('var', n) ('bin', op, l, r) ('neg', t) ('cmp', op, l, r)
# stmt:    ('print', op|None) ('println', op|None) ('printf', fmt, [op], macro|None)
#          ('assign', name, op) ('reg', name, op) ('dev', verb, label)

class Fault(Exception):
    pass


def eval_tree(t, regs, vars_):
    k = t[0]
    if k == 'num':
        return t[1]
    if k == 'reg':
        return regs[t[1]]
    if k == 'var':
        return vars_[t[1]]
    if k == 'neg':
        return -eval_tree(t[1], regs, vars_)
    a = eval_tree(t[2], regs, vars_)
    b = eval_tree(t[3], regs, vars_)
    if k == 'cmp':
        return {'<': a < b, '>': a > b, '<=': a <= b, '>=': a >= b, '==': a == b, '!=': a != b}[t[1]]
    op = t[1]
    if op == '+':
        return a + b
    if op == '-':
        return a - b
    if op == '*':
        return a * b
    if op == '/':
        if b == 0:
            raise Fault('division by zero')
        return a / b
    raise ValueError(op)


def eval_operand(o, regs, vars_, out=None):
    """the documented value of an operand (independent of the VM); a call of a routine that
    prints writes its output (through `out`) before the value is there"""
    k = o[0]
    if k in ('int', 'float', 'str'):
        return o[1]
    if k == 'reg':
        return regs[o[1]]
    if k == 'var':
        return vars_[o[1]]
    if k == 'expr':
        return eval_tree(o[1], regs, vars_)
    if k == 'call':
        args = [eval_operand(a, regs, vars_, out) for a in o[2]]
        f = o[1]
        if f == 'noisy':
            if out is not None:
                out('n')
            return 2
        if f == 'loud':
            if out is not None:
                out('<{}>'.format(args[0]))
            return args[0] + 1
        if f == 'dbl':
            return args[0] * 2
        if f == 'greet':
            return 'hi'
        if f == 'floor':
            return math.floor(args[0])
        if f == 'ceil':
            return math.ceil(args[0])
        if f == 'trunc':
            return math.trunc(args[0])
        if f == 'round':
            return round(args[0])
    raise ValueError(o)


def show_num(v):
    if isinstance(v, float):
        s = repr(v)
        if 'e' in s or 'inf' in s or 'nan' in s:
            raise ValueError('unprintable literal')
        return s
    return str(v)


def show_tree(t, top=True):
    k = t[0]
    if k == 'num':
        return show_num(t[1])
    if k in ('reg', 'var'):
        return t[1]
    if k == 'neg':
        return '-' + show_tree(t[1], False)
    s = '{} {} {}'.format(show_tree(t[2], False), t[1], show_tree(t[3], False))
    return s if top else '(' + s + ')'


def show_operand(o):
    k = o[0]
    if k in ('int', 'float'):
        return show_num(o[1])
    if k == 'str':
        return '"' + o[1] + '"'
    if k in ('reg', 'var'):
        return o[1]
    if k == 'expr':
        return '{' + show_tree(o[1]) + '}'
    if k == 'call':
        return '[' + ' '.join([o[1]] + [show_operand(a) for a in o[2]]) + ']'
    raise ValueError(o)


def show_stmt(s):
    k = s[0]
    if k in ('print', 'println'):
        return k if s[1] is None else k + ' ' + show_operand(s[1])
    if k == 'printf':
        fmt = s[3] if s[3] else '"' + s[1] + '"'
        return ' '.join(['printf', fmt] + [show_operand(o) for o in s[2]])
    if k == 'assign':
        return 'assign {} {}'.format(s[1], show_operand(s[2]))
    if k == 'reg':
        return '{} {}'.format(s[1], show_operand(s[2]))
    if k == 'dev':
        return '{} "{}"'.format(s[1], s[2])
    raise ValueError(s)


def script_text(stmts, rng=None):
    macros = []
    for s in stmts:
        if s[0] == 'printf' and s[3]:
            macros.append('define {} "{}"'.format(s[3], s[1]))
    parts = [show_stmt(s) for s in stmts]
    if rng is None:
        body = '\n'.join(parts)
    else:
        body = ''
        for p in parts:
            body += p + rng.choice(['\n', '\n', ' ', '  # c\n', '\n\n'])
    return PROLOGUE + ''.join(m + '\n' for m in macros) + body + '\n'


# ================================================================= the oracle
def oracle_job(stmts):
    """What the property text says one run writes.  Returns (trace, faulted_at or None).
    Values on one line are separated by exactly one space; println ends the line; printf writes
    its format (backslash-n = line break) filled in by str.format with the following values as
    positional and the variables/registers as named arguments; a statement that raises writes
    nothing and ends the run; at the end of the run an unterminated line is ended."""
    regs = dict(REG_DEFAULT)
    vars_ = {}
    trace = []
    line_open = False
    faulted = None

    def out(text):
        nonlocal line_open
        add_out(trace, (' ' if line_open else '') + text)
        line_open = True

    for i, s in enumerate(stmts):
        k = s[0]
        try:
            if k in ('print', 'println'):
                if s[1] is not None:
                    out(str(eval_operand(s[1], regs, vars_, out)))
                if k == 'println':
                    add_out(trace, '\n')
                    line_open = False
            elif k == 'printf':
                vals = [eval_operand(o, regs, vars_, out) for o in s[2]]
                named = dict(regs)
                named.update(vars_)
                try:
                    text = s[1].replace('\\n', '\n').format(*vals, **named)
                except Exception as ex:  # noqa
                    raise Fault(repr(ex))
                out(text)
            elif k == 'assign':
                vars_[s[1]] = eval_operand(s[2], regs, vars_, out)
            elif k == 'reg':
                regs[s[1]] = eval_operand(s[2], regs, vars_, out)
            elif k == 'dev':
                trace.append(('dev', s[2]))
        except Fault:
            faulted = i
            break
    if line_open:
        add_out(trace, '\n')
    return trace, faulted


# ================================================================= model requests
def operand_arg(o, regs, vars_, hoisted=None):
    """operand for the model.  A call of a routine that prints is given to the model as what
    it amounts to: the routine's output statement first (appended to `hoisted`), then the
    returned value as a constant"""
    k = o[0]
    if k in ('int', 'float', 'str'):
        return value_arg(o[1])
    if k == 'reg':
        return 'r:' + o[1]
    if k == 'var':
        return 'v:' + inner_encode(o[1])
    try:
        v = eval_operand(o, regs, vars_)
    except Fault:
        return 'x:'
    if k == 'call' and hoisted is not None:
        if o[1] == 'noisy':
            hoisted.append('print=s:n')
        elif o[1] == 'loud':
            hoisted.append('printf={}=0={}'.format(
                inner_encode('<{}>'), value_arg(eval_operand(o[2][0], regs, vars_))))
    return value_arg(v)


def operand_args(ops, regs, vars_, hoisted):
    """operands in evaluation order; nothing is hoisted after one that raises"""
    out = []
    dead = False
    for o in ops:
        a = operand_arg(o, regs, vars_, None if dead else hoisted)
        if a == 'x:':
            dead = True
        out.append(a)
    return out


def model_args(stmts):
    """statement arguments for out.run; expressions and calls are passed as the constant the
    documented semantics gives them (their evaluation is C02's business)"""
    regs = dict(REG_DEFAULT)
    vars_ = {}
    args = []
    for s in stmts:
        k = s[0]
        hoisted = []
        if k in ('print', 'println'):
            a = k if s[1] is None else k + '=' + operand_arg(s[1], regs, vars_, hoisted)
            args += hoisted + [a]
        elif k == 'printf':
            ops = operand_args(s[2], regs, vars_, hoisted)
            args += hoisted + ['printf={}=0={}'.format(inner_encode(s[1]), ','.join(ops))]
        elif k in ('assign', 'reg'):
            a = '{}={}={}'.format(k, inner_encode(s[1]), operand_arg(s[2], regs, vars_, hoisted))
            args += hoisted + [a]
            try:
                (vars_ if k == 'assign' else regs)[s[1]] = eval_operand(s[2], regs, vars_)
            except Fault:
                break
        elif k == 'dev':
            args.append('dev=' + inner_encode(s[2]))
    return args


# ================================================================= generator
TEXTS = ['', ' ', 'a', 'Hue: ', '|', '100%', "it's", '{{', '}}', '{{literal}}', '\\n', ' \\n',
         'x=', ', ', 'é→', '#', '  ', ':', '!', '[0]', 'a.b', '\\', '\\t', 'n']
STRINGS = ['', ' ', 'a', 'hello', 'a b', 'two  spaces', ' lead', 'trail ', '{x}', '{}', '}', '{{',
           '100%', "it's", '#not a comment', 'café →', 'print', 'hue', '8:00', '0', '-5',
           'a{b}c', '[x]', ']', '\\n', 'back\\slash', 'tab\there', '%s', '{0}', 'and', 'end', '*']
NUM_SPECS = ['', '>8.2f', '05.1f', '.3f', '<6', '^7', '+', ',', 'e', '.0f', '>10', '%', 'g']
INT_SPECS = ['d', '04d', 'x', 'b', '>5d', ',d', 'c']
STR_SPECS = ['', '>10', '<9', '^5s', '.2', 's', '*^7']
VAR_NAMES = ['x', 'y', 'total', 'the_light', 'n1', '_u', 'Hue', 'pc', 'result', 'count2']


class Gen:
    def __init__(self, rng):
        self.rng = rng

    def number(self):
        r = self.rng
        c = r.random()
        if c < 0.5:
            return r.choice([0, 1, 2, 7, 10, 42, 100, 120, 255, 360, 65535, 1000000])
        return r.choice([0.5, 2.5, 0.25, 10.75, 120.5, 3.0, 0.125, 99.5, 1000.0, 0.0])

    def tree(self, regs, vars_, depth=0):
        r = self.rng
        c = r.random()
        nums = [n for n, v in vars_.items() if isinstance(v, (int, float)) and not isinstance(v, bool)]
        if depth >= 2 or c < 0.35:
            return ('num', self.number())
        if c < 0.45 and nums:
            return ('var', r.choice(nums))
        if c < 0.55:
            return ('reg', r.choice(DOC_REGS))
        if c < 0.62:
            return ('neg', ('num', self.number()))
        op = r.choice(['+', '-', '*', '/', '+', '*'])
        return ('bin', op, self.tree(regs, vars_, depth + 1), self.tree(regs, vars_, depth + 1))

    def operand(self, regs, vars_, want=None, allow_fault=False):
        """want: None any | 'num' | 'int' | 'str'"""
        r = self.rng
        for _ in range(50):
            c = r.random()
            if want == 'str':
                o = r.choice([('str', r.choice(STRINGS)), ('call', 'greet', [])] +
                             [('var', n) for n, v in vars_.items() if isinstance(v, str)])
            elif c < 0.16:
                o = ('int', r.choice([0, 1, 5, 7, 42, 120, 2000, 65535, 123456789]))
            elif c < 0.28:
                o = ('float', r.choice([0.5, 2.5, 0.25, 120.5, 3.0, 99.75, 0.001, 1234.5]))
            elif c < 0.42 and want is None:
                o = ('str', r.choice(STRINGS))
            elif c < 0.54:
                o = ('reg', r.choice(DOC_REGS))
            elif c < 0.66 and vars_:
                o = ('var', r.choice(sorted(vars_)))
            elif c < 0.80:
                o = ('expr', self.tree(regs, vars_))
            elif c < 0.88 and want is None:
                a, b = self.number(), self.number()
                o = ('expr', ('cmp', r.choice(['<', '>', '<=', '>=', '==', '!=']),
                              ('num', a), ('num', b)))
            elif c < 0.94:
                f = r.choice(['floor', 'ceil', 'trunc', 'round'])
                o = ('call', f, [('float', r.choice([2.25, 2.75, 7.125, 0.25, 99.75]))])
            elif c < 0.97:
                o = ('call', 'dbl', [r.choice([('int', 4), ('float', 2.5), ('reg', 'hue')])])
            else:
                o = r.choice([('call', 'noisy', []),
                              ('call', 'loud', [r.choice([('int', 4), ('float', 2.5)])])])
            try:
                v = eval_operand(o, regs, vars_)
                show_operand(o)
            except Fault:
                if allow_fault:
                    return o
                continue
            except ValueError:
                continue
            if isinstance(v, float) and (v != v or abs(v) > 1e15 or (v != 0 and abs(v) < 1e-4)):
                continue
            if want == 'num' and (isinstance(v, bool) or not isinstance(v, (int, float))):
                continue
            if want == 'int' and (isinstance(v, bool) or not isinstance(v, int)):
                continue
            if want == 'str' and not isinstance(v, str):
                continue
            if o[0] == 'str' and o[1] in ('{', '[', '-', 'not'):
                continue     # defect #13 (string content read as punctuation) is C16's
            return o
        return ('int', 1)

    def spec_for(self, v, mismatch=False):
        r = self.rng
        if mismatch:
            if isinstance(v, str):
                return r.choice(['d', '.2f', '+'])
            if isinstance(v, float):
                return r.choice(['d', 'x', 's'])
            if v is None:
                return '>5'
            return r.choice(['s', 'q', '.2.2'])
        if isinstance(v, bool):
            return r.choice(['', '>6', 'd'])
        if isinstance(v, int):
            return r.choice(NUM_SPECS + INT_SPECS)
        if isinstance(v, float):
            return r.choice(NUM_SPECS)
        if isinstance(v, str):
            return r.choice(STR_SPECS)
        return ''

    def field(self, name, v, mismatch=False):
        r = self.rng
        conv = r.choice(['', '', '', '!r', '!s', '!a'])
        spec = self.spec_for(v if conv == '' else str(v), mismatch)
        return '{' + name + conv + (':' + spec if spec or r.random() < 0.1 else '') + '}'

    def printf(self, regs, vars_, fault=None):
        """fault: None | 'operand' | 'spec' | 'mix' | 'index'"""
        r = self.rng
        style = r.choice(['anon', 'anon', 'anon', 'numbered', 'named-only'])
        n_fields = r.choice([0, 1, 1, 2, 2, 3, 4])
        names = [n for n in DOC_REGS] + sorted(vars_)
        pieces = []
        ops = []
        vals = []
        positional = 0
        kinds = []
        for _ in range(n_fields):
            if style == 'named-only' or r.random() < 0.35:
                kinds.append('named')
            else:
                kinds.append('pos')
                positional += 1
        for _ in range(positional):
            o = self.operand(regs, vars_)
            ops.append(o)
            vals.append(eval_operand(o, regs, vars_))
        order = list(range(positional))
        if style == 'numbered':
            order = [r.randrange(positional) for _ in range(positional)]
        pi = 0
        bad_field = r.randrange(n_fields) if n_fields and fault == 'spec' else None
        seq = []          # anonymous style: the operands in the order str.format takes them
        small = [n for n, v in vars_.items()
                 if isinstance(v, int) and not isinstance(v, bool) and 1 <= v <= 12]

        def compound(v):
            """an attribute / index part for a field whose value is v, and what it selects"""
            if isinstance(v, (int, float)) and r.random() < 0.3:
                part = r.choice(['.real', '.real', '.imag'])
                return part, (v.real if part == '.real' else v.imag)
            if isinstance(v, str) and v and r.random() < 0.3:
                return '[0]', v[0]
            return '', v

        def nested(v, ref):
            """a format spec with replacement fields nested in it (width, precision, fill) for the
            value v; ref(op) makes a positional reference to a new operand (text inside braces)"""
            def src(op, val):
                if isinstance(val, int) and small and r.random() < 0.4:
                    n = r.choice([m for m in small])
                    return '{' + n + '}', vars_[n]
                return '{' + ref(op) + '}', val
            if isinstance(v, bool) or v is None:
                return None
            w = r.choice([1, 3, 6, 9])
            parts = []
            if r.random() < 0.3:
                fill = r.choice(['*', '.', '_', '0'])
                parts.append(src(('str', fill), fill)[0])
                parts.append(r.choice('<>^'))
            elif r.random() < 0.6:
                parts.append(r.choice(['<', '>', '^', '']))
            parts.append(src(('int', w), w)[0])
            if isinstance(v, float) or (isinstance(v, int) and r.random() < 0.2):
                if r.random() < 0.6:
                    parts.append('.' + src(('int', r.choice([0, 1, 3])), 0)[0] + 'f')
            elif isinstance(v, str) and r.random() < 0.3:
                parts.append('.' + src(('int', r.choice([1, 2])), 0)[0])
            return ''.join(parts)

        for fi, kind in enumerate(kinds):
            if r.random() < 0.8:
                pieces.append(r.choice(TEXTS))
            extra = []        # operands of the fields nested in this field's spec

            def ref(op):
                if style == 'numbered':
                    ops.append(op)
                    return str(len(ops) - 1)
                extra.append(op)
                return ''
            if kind == 'named':
                n = r.choice(names)
                v = regs[n] if n in regs and n not in vars_ else vars_.get(n, regs.get(n))
                name = n
            else:
                idx = order[pi]
                name = str(idx) if style == 'numbered' else ''
                v = vals[idx]
                if style != 'numbered':
                    seq.append(ops[idx])
                pi += 1
            part, sel = compound(v) if fi != bad_field else ('', v)
            spec = nested(sel, ref) if fi != bad_field and r.random() < 0.25 else None
            if spec is not None:
                pieces.append('{' + name + part + ':' + spec + '}')
            elif part:
                pieces.append(self.field(name + part, sel, False))
            else:
                pieces.append(self.field(name, v, fi == bad_field))
            seq.extend(extra)
        if style != 'numbered':
            ops = seq
        if r.random() < 0.7 or not pieces:
            pieces.append(r.choice(TEXTS + ['\\n', '\\n']))
        fmt = ''.join(pieces)
        if fmt == '':
            fmt = 'x'
        if fmt.endswith('\\'):
            fmt += ' '          # a backslash before the closing quote would escape it
        if fault == 'mix' and positional:
            fmt += '{0}' if style != 'numbered' else '{}'
            ops.append(('int', 9))
        if fault == 'index':
            fmt += '{7}'
            ops.append(('int', 9))
        if fault == 'operand':
            if not ops:
                fmt += '{}'
                ops.append(('int', 1))
            ops[r.randrange(len(ops))] = ('expr', ('bin', '/', ('num', 1), ('num', 0)))
        macro = 'F{}'.format(r.randrange(1000)) if r.random() < 0.12 else None
        return ('printf', fmt, ops, macro)

    def job(self, n_stmts, fault_kind=None):
        r = self.rng
        regs = dict(REG_DEFAULT)
        vars_ = {}
        stmts = []
        fault_pos = r.randrange(n_stmts) if fault_kind else None
        macros = set()
        while len(stmts) < n_stmts:
            i = len(stmts)
            prev_bare = bool(stmts) and stmts[-1][0] in ('print', 'println') and stmts[-1][1] is None
            c = r.random()
            if fault_kind and i == fault_pos:
                if fault_kind == 'operand' and r.random() < 0.5:
                    bad = ('expr', ('bin', '/', ('num', 1), ('num', 0)))
                    s = (r.choice(['print', 'println']), bad)
                else:
                    s = self.printf(regs, vars_, fault_kind)
            elif c < 0.30:
                s = ('print', self.operand(regs, vars_) if r.random() < 0.93 else None)
            elif c < 0.45:
                s = ('println', self.operand(regs, vars_) if r.random() < 0.75 else None)
            elif c < 0.72:
                s = self.printf(regs, vars_)
            elif c < 0.82:
                n = r.choice(VAR_NAMES)
                s = ('assign', n, self.operand(regs, vars_))
            elif c < 0.90:
                if prev_bare:
                    continue      # `print hue 5` would read hue as print's value
                s = ('reg', r.choice(DOC_REGS), self.operand(regs, vars_, want='num'))
            else:
                s = ('dev', r.choice(['set', 'on', 'off']), r.choice(['A', 'B']))
            if s[0] == 'printf' and s[3]:
                if s[3] in macros:
                    continue
                macros.add(s[3])
            try:
                if s[0] == 'assign':
                    vars_[s[1]] = eval_operand(s[2], regs, vars_)
                elif s[0] == 'reg':
                    regs[s[1]] = eval_operand(s[2], regs, vars_)
            except Fault:
                pass
            stmts.append(s)
        return stmts


# ================================================================= the real code
class Capture(io.TextIOBase):
    """stands in for sys.stdout: every write goes to the same event log as the device requests"""

    def __init__(self, events):
        self.events = events

    def writable(self):
        return True

    def write(self, s):
        self.events.append(('<stdout>', 'write', s, 'ok'))
        return len(s)

    def flush(self):
        pass


class BufferedCapture(Capture):
    """a buffered stream (what sys.stdout is when it is a file or a pipe): text reaches the
    sink only when flush() is called.  Used for the clause "has all been written when the script
    ends" only — order relative to device commands is judged with the unbuffered capture."""

    def __init__(self, events):
        Capture.__init__(self, events)
        self.pending = []

    def write(self, s):
        self.pending.append(s)
        return len(s)

    def flush(self):
        for s in self.pending:
            Capture.write(self, s)
        del self.pending[:]


class Real:
    def __init__(self):
        self.net = None

    def process(self):
        """a fresh 'process': simulated lights under the real wrappers + the PRODUCTION output
        binding (what light_module.configure does: std_out_output.configure())"""
        from bardolph.lib import std_out_output
        self.net, _, _ = simnet.install(POPULATION)
        std_out_output.configure()
        return self.net

    def trace(self):
        out = []
        for label, method, args, outcome in self.net.events:
            if label == '<stdout>':
                add_out(out, args)
            elif outcome == 'ok' and method in ('set_color', 'set_power'):
                out.append(('dev', label))
        return out

    def run_jobs(self, sources, same_job=False, between=None, buffered=False):
        """returns (trace, notes).  notes: compile errors / escaped exceptions"""
        from bardolph.controller.script_job import ScriptJob
        from bardolph.parser.parse import Parser
        net = self.process()
        notes = []
        cap = BufferedCapture(net.events) if buffered else Capture(net.events)
        old = sys.stdout
        sys.stdout = cap
        try:
            job = None
            for idx, src in enumerate(sources):
                if between is not None and idx > 0:
                    between(net, idx)
                try:
                    if same_job and job is not None:
                        if src is not None:
                            job.load_string(src)
                            if job.program is not None and len(job.program) == 0:
                                # pinned-tree defect #21 (C17): a Parser that has seen EOF
                                # compiles everything to the empty program; not C19's
                                job._parser = Parser()
                                job.load_string(src)
                    else:
                        job = ScriptJob.from_string(src)
                    if job.program is None:
                        notes.append(('compile-error', idx, job.compile_errors))
                        continue
                    job.execute()
                    if buffered and cap.pending:
                        # the script has ended and part of its output is still in the buffer
                        notes.append(('unflushed', idx, ''.join(cap.pending)))
                        cap.flush()
                except Exception as ex:  # noqa
                    notes.append(('raised', idx, repr(ex)))
        finally:
            sys.stdout = old
        return self.trace(), notes


_FIELD = re.compile(r'\{([^{}!:]*)(![rsa])?(:[^{}]*)?\}')


def tally(features, s):
    """input distribution: value kinds printed, field kinds used"""
    def bump(k):
        features[k] = features.get(k, 0) + 1
    ops = []
    if s[0] in ('print', 'println'):
        bump(s[0] + ('-bare' if s[1] is None else '-value'))
        if s[1] is not None:
            ops = [s[1]]
    elif s[0] == 'printf':
        ops = s[2]
        fmt = s[1].replace('{{', '').replace('}}', '')
        if '{{' in s[1] or '}}' in s[1]:
            bump('format:escaped-brace')
        if '\\n' in s[1]:
            bump('format:backslash-n')
        if s[3]:
            bump('format:macro')
        fields = _FIELD.findall(fmt)
        if not fields:
            bump('format:no-field')
        if re.search(r':[^{}]*\{', fmt):
            bump('field:nested-in-spec')
        for name, conv, spec in fields:
            if '.' in name or '[' in name:
                bump('field:compound-name')
                name = re.split(r'[.\[]', name)[0]
            bump('field:' + ('anonymous' if name == '' else 'numbered' if name.isdigit() else 'named'))
            if conv:
                bump('field:conversion')
            if spec and len(spec) > 1:
                bump('field:spec')
    for o in ops:
        k = o[0]
        if k == 'expr':
            k = 'truth-value' if o[1][0] == 'cmp' else 'expression'
        if k == 'call':
            k = 'call:' + ('printing-routine' if o[1] in ('noisy', 'loud') else
                           'routine' if o[1] in ('dbl', 'greet') else 'builtin')
        if k == 'str':
            k = 'string:empty' if o[1] == '' else 'string'
        bump('value:' + k)


def out_instructions(program):
    from bardolph.vm.vm_codes import IoOp, OpCode
    res = []
    for inst in program:
        if inst.op_code is OpCode.OUT:
            if inst.param0 is IoOp.PRINTF:
                res.append('PRINTF:' + inner_encode(inst.param1))
            else:
                res.append(inst.param0.name)
    return res


# ================================================================= main
def main():
    chk = Check('C19', extra_modules=['Bardolph.Props.C19Heads'])
    replay_path = None
    argv = sys.argv[1:]
    for i, a in enumerate(argv):
        if a == '--replay' and i + 1 < len(argv):
            replay_path = argv[i + 1]
    if replay_path:
        return replay(replay_path)
    chk.lean_phase(sections={'Output'})
    rng = chk.rng
    gen = Gen(rng)
    real = Real()
    stats = {}
    requests = []     # (cmd, args, expect(str or callable), stream, case)
    T = chk.thorough

    # ------------------------------------------------------------------ 1 + 2: jobs
    cases = []        # dict(jobs=[stmts], same_job, scenario)
    n_single = 700 if not T else 8000
    for _ in range(n_single):
        n = rng.choice([1, 2, 3, 4, 6, 8, 12])
        fk = rng.choice([None] * 7 + ['operand', 'spec', 'mix', 'index'])
        cases.append({'jobs': [gen.job(n, fk)], 'same_job': False,
                      'scenario': 'fault' if fk else 'single'})
    for _ in range(260 if not T else 3000):
        k = rng.choice([2, 2, 3, 4])
        jobs = []
        for _ in range(k):
            fk = rng.choice([None, None, None, None, 'operand', 'spec', 'index'])
            jobs.append(gen.job(rng.choice([1, 2, 3, 5]), fk))
        same = rng.random() < 0.5
        cases.append({'jobs': jobs, 'same_job': same,
                      'scenario': 'runs-same-job' if same else 'runs-fresh-jobs'})
    # hand-made cases: the ones the property text and the defect table name
    def P(o):
        return ('print', o)
    hand = [
        ([[('reg', 'hue', ('int', 120)), ('reg', 'saturation', ('int', 50)), P(('reg', 'hue')),
           P(('reg', 'saturation'))]], False, 'single'),
        ([[P(('int', 1))]], False, 'single'),
        ([[('println', None)]], False, 'single'),
        ([[P(None)]], False, 'single'),
        ([[P(('str', '')), P(('str', '')), ('println', ('int', 3))]], False, 'single'),
        ([[('printf', 'a\\n', [], None), P(('int', 5))]], False, 'single'),
        ([[('printf', 'a\\nb', [], None), ('printf', '{}', [('int', 1)], None)]], False, 'single'),
        ([[('printf', '{0} {0}', [('int', 5), ('int', 6)], None), P(('int', 7))]], False, 'single'),
        ([[('printf', '{2} {1} {0}', [('int', 1), ('int', 2), ('int', 3)], None)]], False, 'single'),
        ([[('assign', 'x', ('int', 100)), ('assign', 'y', ('int', 200)),
           ('printf', '{x} {} {}', [('var', 'y'), ('expr', ('bin', '/', ('bin', '+', ('var', 'x'),
                                                               ('var', 'y')), ('num', 2)))], None)]],
         False, 'single'),
        ([[P(('int', 1)), ('dev', 'set', 'A'), P(('int', 2)), ('dev', 'on', 'B'),
           ('println', ('int', 3)), ('dev', 'off', 'A'), ('printf', 'x', [], None)]], False, 'single'),
        ([[('assign', 'result', ('int', 5)), ('printf', '{result}', [], None)]], False, 'single'),
        ([[('assign', 'pc', ('int', 5)), ('assign', 'Hue', ('int', 6)),
           ('printf', '{pc} {Hue} {hue}', [], None)]], False, 'single'),
        ([[('assign', 'z', ('int', 0)),
           ('printf', '{} {}', [('int', 1), ('expr', ('bin', '/', ('num', 1), ('var', 'z')))], None)],
          [('printf', '{}', [('int', 7)], None)]], True, 'runs-same-job'),
        ([[('assign', 'z', ('int', 0)),
           ('printf', '{} {}', [('int', 1), ('expr', ('bin', '/', ('num', 1), ('var', 'z')))], None)],
          [('printf', '{}', [('int', 7)], None)]], False, 'runs-fresh-jobs'),
        ([[P(('int', 1)), P(('expr', ('bin', '/', ('num', 1), ('num', 0))))],
          [P(('int', 2))]], False, 'runs-fresh-jobs'),
        ([[P(('int', 1)), P(('expr', ('bin', '/', ('num', 1), ('num', 0))))],
          [P(('int', 2))]], True, 'runs-same-job'),
        ([[P(('int', 1))], [P(('int', 2))], [('println', ('int', 3))]], False, 'runs-fresh-jobs'),
        ([[P(('int', 1))], [P(('int', 2))], [('println', ('int', 3))]], True, 'runs-same-job'),
        ([[('printf', '{:d}', [('float', 1.5)], None), P(('int', 3))], [P(('int', 4))]],
         True, 'runs-same-job'),
        # a routine that prints, called while a printf is collecting its values
        ([[P(('call', 'noisy', [])), ('printf', '{} {}', [('call', 'noisy', []), ('call', 'noisy', [])],
                                      None)]], False, 'single'),
        ([[('printf', '{} {}|{}', [('int', 9), ('call', 'loud', [('int', 4)]), ('int', 8)], None),
           ('println', ('call', 'loud', [('float', 2.5)]))]], False, 'single'),
        ([[('printf', '{} {}', [('call', 'noisy', []),
                                ('expr', ('bin', '/', ('num', 1), ('num', 0)))], None)],
          [P(('int', 2))]], True, 'runs-same-job'),
    ]
    for jobs, same, scen in hand:
        cases.append({'jobs': jobs, 'same_job': same, 'scenario': scen})

    kinds_seen = {}
    features = {}
    n_fault_cases = 0
    for ci, case in enumerate(cases):
        sources = [script_text(j, rng if ci % 3 == 0 else None) for j in case['jobs']]
        case['sources'] = sources
        # oracle
        want = []
        faulted = []
        for j in case['jobs']:
            t, f = oracle_job(j)
            faulted.append(f)
            for e in t:
                if e[0] == 'out':
                    add_out(want, e[1])
                else:
                    want.append(e)
        case['want'] = want
        if any(f is not None for f in faulted):
            n_fault_cases += 1
        # real
        got, notes = real.run_jobs(sources, same_job=case['same_job'])
        case['got'] = got
        chk.count()
        for j in case['jobs']:
            for s in j:
                kinds_seen[s[0]] = kinds_seen.get(s[0], 0) + 1
                tally(features, s)
        key = json.dumps(case['jobs'], sort_keys=True, default=str)
        if any(len(j) > 1 for j in case['jobs']) or len(case['jobs']) > 1:
            chk.nontrivial_case(key)
        replay_obj = {'sources': sources, 'same_job': case['same_job'], 'expected': want,
                      'got': got, 'notes': notes}
        if any(n[0] == 'compile-error' for n in notes):
            chk.violation('compile-rejects-valid-output-statement',
                          'a well-formed script is rejected: {}'.format(notes[0][2].strip()),
                          replay_obj)
        elif any(n[0] == 'raised' for n in notes):
            chk.violation('execute-raises', 'ScriptJob.execute raised {}'.format(notes[0][2]),
                          replay_obj)
        elif got != want:
            if text_of(got) == text_of(want):
                sig = 'order-relative-to-device-commands'
                what = 'stdout text is right but its order relative to device commands is not'
            elif (any(f is not None for f in faulted) and
                  text_of(got).replace('\n', '') == text_of(want).replace('\n', '')):
                sig = 'stdout-bytes:line-end-after-fault'
                what = ('after a faulting statement the pending line is not ended: stdout is '
                        '{!r}, documented {!r}'.format(text_of(got)[:80], text_of(want)[:80]))
            else:
                sig = 'stdout-bytes:' + case['scenario']
                what = 'stdout is {!r}, documented {!r}'.format(text_of(got)[:80], text_of(want)[:80])
            chk.violation(sig, what + ' for ' + ' / '.join(
                ' '.join(show_stmt(s) for s in j) for j in case['jobs'])[:300], replay_obj)
        if ci % 3 == 0 and not notes:
            # "has all been written when the script ends", on a buffered stream
            got_b, notes_b = real.run_jobs(sources, same_job=case['same_job'], buffered=True)
            stats['buffered_runs'] = stats.get('buffered_runs', 0) + 1
            left = [n for n in notes_b if n[0] == 'unflushed']
            if left:
                chk.violation('stdout-not-flushed-at-script-end',
                              'when the script ended {!r} had not been written to a buffered standard '
                              'output (of {!r})'.format(left[0][2][:60], text_of(want)[:80]),
                              dict(replay_obj, notes=notes_b, stream='buffered'))
            elif text_of(got_b) != text_of(got):
                chk.violation('stdout-bytes:buffered-stream', 'on a buffered standard output the text is {!r} '
                              'instead of {!r}'.format(text_of(got_b)[:80], text_of(got)[:80]),
                              dict(replay_obj, stream='buffered'))
        if ci < 4:
            chk.sample({'script': sources[0][len(PROLOGUE):], 'stdout': text_of(got)})
        # model
        args = ['0']
        for ji, j in enumerate(case['jobs']):
            if ji:
                args.append('job')
            args += model_args(j)
        requests.append(('out.run', args, None, 'run', case))
    stats['job_cases'] = len(cases)
    stats['job_cases_with_fault'] = n_fault_cases
    stats['statement_kinds'] = kinds_seen
    stats['value_and_format_features'] = features

    # the same program run twice on the same job, the fault depending on a device's state (#28
    # without reloading): run 1 faults between OUT REGISTER and OUT PRINTF, run 2 does not
    src = 'units raw\nget "A"\nprintf "{} {}" 1 {1 / hue}\n'

    def between(net, idx):
        net.device('A').color = [4, 0, 0, 3500]
    got, notes = real.run_jobs([src, None], same_job=True, between=between)
    want = [('out', '1 0.25\n')]
    chk.count()
    if got != want or notes:
        chk.violation('stdout-bytes:runs-same-job',
                      'second run of the same job after a faulted first run writes {!r}, '
                      'documented {!r}'.format(text_of(got), text_of(want)),
                      {'sources': [src, '(same program again, light A now has raw hue 4)'],
                       'same_job': True, 'expected': want, 'got': got, 'notes': notes})

    # ------------------------------------------------------------------ 3: Formatter().parse
    fm = string.Formatter()

    def real_parse(s):
        try:
            tuples = list(fm.parse(s))
        except ValueError:
            return 'err'
        out = []
        for lit, name, spec, conv in tuples:
            out.append('L{};{};S{};{}'.format(
                inner_encode(lit), '-' if name is None else 'N' + inner_encode(name),
                inner_encode(spec or ''), '-' if conv is None else 'C' + inner_encode(conv)))
        return ('ok ' + ' '.join(out)) if out else 'ok '
    alpha = '{}!:[]a0'
    L = 6 if T else 5
    n_parse = 0
    for n in range(0, L + 1):
        for tup in itertools.product(alpha, repeat=n):
            s = ''.join(tup)
            requests.append(('out.parse', [s], real_parse(s), 'parse', s))
            n_parse += 1
    rich = '{}!:[]a0 .\\nrs<>^5fé'
    for _ in range(4000 if not T else 60000):
        s = ''.join(rng.choice(rich) for _ in range(rng.randint(1, 14)))
        requests.append(('out.parse', [s], real_parse(s), 'parse', s))
        n_parse += 1

    from bardolph.lib.format_fields import field_names

    def real_count(s):
        """io_parser.printf's count and VmIo._printf's names, as those two functions compute them
        (both walk `field_names`: the first part of every field's name, nested fields included)"""
        def pos(h):
            return h == '' or isinstance(h, int)
        try:
            h1 = list(field_names(s))
            s2 = s.replace('\\n', '\n')
            h2 = list(field_names(s2))
        except ValueError:
            return 'err'
        return '{} {} | {} {}'.format(
            sum(1 for h in h1 if pos(h)), ','.join(inner_encode(h) for h in h1 if not pos(h)),
            sum(1 for h in h2 if pos(h)), ','.join(inner_encode(h) for h in h2 if not pos(h)))
    count_alpha = '{}\\n0a:'
    for n in range(0, 6 if not T else 7):
        for tup in itertools.product(count_alpha, repeat=n):
            s = ''.join(tup)
            requests.append(('out.count', [s], real_count(s), 'count', s))
            n_parse += 1
    # compound names, fields nested in specs, numbers beyond PY_SSIZE_T_MAX
    count_rich = '{}:.[]09a!\\n>'
    fixed_counts = ['{x.real}', '{s[0]}', '{0.real}', '{.imag}', '{[0]}', '{:>{}}', '{:>{w}}',
                    '{:{}.{}f}', '{a:{b:{c}}}', '{:{!}}', '{:{a{}}}', '{:{{}}}', '{0[{}]}',
                    '{9223372036854775807}', '{9223372036854775808}', '{' + '9' * 30 + '}',
                    '{:{99999999999999999999}}', '{007}', '{0x}', '{a.b[c].d:{e.f}}', '{!r:{}}',
                    '{x.real\\n}', '{:\\n{}}', '{:{\\n}}']
    for s in fixed_counts:
        requests.append(('out.count', [s], real_count(s), 'count', s))
        n_parse += 1
    for _ in range(6000 if not T else 60000):
        s = ''.join(rng.choice(count_rich) for _ in range(rng.randint(1, 12)))
        requests.append(('out.count', [s], real_count(s), 'count', s))
        n_parse += 1
    chk.count(n_parse)
    stats['parse_strings'] = n_parse
    stats['parse_exhaustive_len'] = L

    # ------------------------------------------------------------------ 4: items
    from bardolph.parser.parse import Parser
    env.configure_basic()
    FORMATS = ['{}', '{} {}', '{0} {0}', '{a}', '{} {hue} {}', 'x', '{{}}', '{0}{1}{2}', '{:>{}}',
               '{', 'a}b', '{a', '{!}', '{:q}', '{x!r:>8} {}', '', '{hue:{w}}', '{a[0]} {}', '\\n{}']
    # no calls here: a bracketed call left over after a statement is itself a statement
    VALS = [('int', 1), ('float', 2.5), ('str', 'v'), ('reg', 'hue'), ('str', ''),
            ('expr', ('bin', '+', ('num', 1), ('num', 2)))]
    n_items = 0
    for _ in range(1500 if not T else 15000):
        items = []
        text = []
        for _ in range(rng.randint(1, 4)):
            c = rng.random()
            if c < 0.25:
                kw = rng.choice(['print', 'println'])
                items.append('P' if kw == 'print' else 'L')
                text.append(kw)
                nv = rng.choice([0, 1, 1, 1, 2])
            else:
                f = rng.choice(FORMATS)
                items.append('F=' + inner_encode(f))
                text.append('printf "{}"'.format(f))
                try:
                    k = sum(1 for x in fm.parse(f) if x[1] is not None and (x[1] == '' or x[1].isdecimal()))
                except ValueError:
                    k = 1
                nv = max(0, k + rng.choice([0, 0, 0, 0, -1, 1]))
            for _ in range(nv):
                v = rng.choice(VALS)
                items.append('V=' + operand_arg(v, REG_DEFAULT, {}))
                text.append(show_operand(v))
            if rng.random() < 0.3:
                items.append('O=dev=A')
                text.append('set "A"')
        src = ' '.join(text) + '\n'
        parser = Parser()
        try:
            ok = parser.parse(src)
        except Exception as ex:  # noqa
            chk.violation('compile-crash-bad-format',
                          'compiling {!r} raises {!r} instead of rejecting with a message'.format(
                              ' '.join(text), ex), {'source': src})
            n_items += 1
            continue
        n_items += 1
        if ok:
            impl = 'accept ' + ' '.join(out_instructions(parser.get_program()))
        else:
            impl = 'reject'
            if 'Line ' not in parser.get_errors():
                chk.violation('compile-reject-without-line', 'rejection without a line number',
                              {'source': src, 'errors': parser.get_errors()})
        requests.append(('out.items', items, impl, 'items', src))
    chk.count(n_items)
    stats['item_sequences'] = n_items

    # ------------------------------------------------------------------ 5: raw OUT sequences
    from bardolph.vm.instruction import Instruction
    from bardolph.vm.machine import Machine
    from bardolph.vm.vm_codes import IoOp, OpCode, Register
    n_raw = 0
    for _ in range(400 if not T else 5000):
        seq = []
        prog = []
        for _ in range(rng.randint(0, 7)):
            c = rng.choice('RRRTPPEFFX')
            if c in 'RT':
                v = rng.choice([1, 2.5, 'a b', '', True, None, 7])
                seq.append('{}={}'.format(c, value_arg(v)))
                if c == 'R':
                    prog.append(Instruction(OpCode.MOVEQ, v, Register.RESULT))
                    prog.append(Instruction(OpCode.OUT, IoOp.REGISTER, Register.RESULT))
                else:
                    prog.append(Instruction(OpCode.OUT, IoOp.LITERAL, v))
            elif c == 'P':
                seq.append('P')
                prog.append(Instruction(OpCode.OUT, IoOp.PRINT))
            elif c == 'E':
                seq.append('E')
                prog.append(Instruction(OpCode.OUT, IoOp.PRINT_END))
            elif c == 'F':
                f = rng.choice(['{}', 'x', '{} {}', '{hue}', '{}\\n', '<{}>'])
                seq.append('F=' + inner_encode(f))
                prog.append(Instruction(OpCode.OUT, IoOp.PRINTF, f))
            else:
                seq.append('F={')
                prog.append(Instruction(OpCode.OUT, IoOp.PRINTF, '{'))
        runs = []
        for poke in (False, True):
            net = real.process()
            cap = Capture(net.events)
            old = sys.stdout
            sys.stdout = cap
            try:
                m = Machine()
                if poke:
                    # what a stopped or faulted earlier run may leave behind: ScriptJob.execute
                    # calls reset() before every run, after which nothing of it may show
                    m._vm_io._unnamed.extend(['stale', 99])
                m.reset()
                m.run(prog)
                left = len(m._vm_io._unnamed)
            finally:
                sys.stdout = old
            runs.append((real.trace(), left))
        got, left = runs[0]
        if runs[1] != runs[0]:
            chk.violation('reset-does-not-clear-accumulator',
                          'values left in VmIo._unnamed before Machine.reset() show up in the next '
                          'run: {!r} instead of {!r}'.format(text_of(runs[1][0]), text_of(got)),
                          {'out_instructions': seq, 'clean': runs[0], 'after_stale_values': runs[1]})
        n_raw += 1
        requests.append(('out.instrs', ['0', '0'] + seq, (got, left), 'raw', seq))
    chk.count(n_raw)
    stats['raw_sequences'] = n_raw

    # ------------------------------------------------------------------ 6: the manual's examples
    manual = [
        ('hue 120 saturation 50 brightness 75 kelvin 2000\nprintln "-----"\nprint hue\n'
         'print saturation\nprint brightness\nprintln kelvin\nprintln "-----"\n',
         '-----\n120 50 75 2000\n-----\n', 'manual-example-print'),
        ('hue 120 saturation 50 brightness 75 kelvin 2000\n'
         'printf "{} {} {} {}" hue saturation brightness kelvin\n', '120 50 75 2000\n',
         'manual-example-printf'),
        ('hue 1 saturation 2 brightness 3\nprintf "{hue} {saturation} {brightness}"\nprintln\n'
         'printf "{} {} {}" hue saturation brightness\nprintln\n'
         'printf "{hue} {} {}" saturation brightness\nprintln\n'
         'printf "{2} {1} {0}" brightness saturation hue\n', '1 2 3\n1 2 3\n1 2 3\n1 2 3\n',
         'manual-example-printf'),
        # "println and printf each append a line feed" (language.rst, Outputting Text)
        ('printf "{}" 1\nprintf "{}" 2\n', '1\n2\n', 'manual-printf-line-feed'),
        # output from loops and routines goes through the same sink (hand-expanded expectations)
        ('repeat 3 begin print "x" end\nprintln "done"\n', 'x x x done\n',
         'stdout-bytes:loop-or-routine'),
        ('define show with v begin printf "<{v}>" end\nshow 1\nshow "b c"\nprintln\nshow 2.5\n',
         '<1> <b c>\n<2.5>\n', 'stdout-bytes:loop-or-routine'),
        ('repeat all as the_light begin printf "{the_light}:{}" 1 set the_light end\n',
         None, 'stdout-bytes:loop-or-routine'),
        ('define f begin print 1 return 2 end\nprint [f]\nprintf "{} {}" [f] [f]\n',
         '1 2 1 1 2 2\n', 'stdout-bytes:loop-or-routine'),
        # a later value of a printf is a call to a routine that runs a printf of its own while the
        # statement's earlier values are pending: each printf takes exactly its own values
        ('define twice with x begin printf "[twice {}]" x return {x * 2} end\n'
         'printf "{} -> {}" 1 [twice 21]\n', '[twice 21] 1 -> 42\n', 'stdout-bytes:loop-or-routine'),
        ('define g with a b begin printf "({} {})" a b return {a + b} end\n'
         'printf "{} {} {}" 1 [g 2 3] [g [g 4 5] 6]\n', '(2 3) (4 5) (9 6) 1 5 15\n',
         'stdout-bytes:loop-or-routine'),
        ('define h with x begin printf "<{x}>" return x end\nassign y 9\nprintf "{} {y} {}" 1 [h 2]\n',
         '<2> 1 9 2\n', 'stdout-bytes:loop-or-routine'),
        # inside a routine a named field, a positional value and an expression over a PARAMETER take
        # the parameter, also when a macro of the same name was defined before the routine
        ('define step 10\ndefine show with step begin printf "named={step} positional={}" step println '
         'print step println {step * 2} end\nshow 3\nassign step2 4\nshow step2\n',
         'named=3 positional=3\n3 6\nnamed=4 positional=4\n4 8\n', 'stdout-bytes:loop-or-routine'),
        # parameters named like internal registers that are no words of the language (power, result,
        # operand, pc, name, matrix, first_zone): a named field takes the parameter, in every activation
        ('define report with power result operand pc begin printf "{power} {result} {operand} {pc}" println end\n'
         'on all\nreport 3 100 "outer" 7\n'
         'define deeper with name matrix first_zone begin printf "{name}/{matrix}/{first_zone}" println '
         'if {first_zone > 0} deeper name matrix {first_zone - 1} end\ndeeper "n" 5 1\n',
         '3 100 outer 7\nn/5/1\nn/5/0\n', 'stdout-bytes:loop-or-routine'),
        ('printf "{:>{}}|" 5 6\n', '     5|\n', 'printf-nested-field'),
        ('assign w 6\nprintf "{:>{w}}|" 5\n', '     5|\n', 'printf-nested-field'),
        ('assign x 5\nprintf "{x.real}|{x.imag}"\n', '5|0\n', 'printf-compound-field-name'),
        ('assign s "abc"\nprintf "{s[0]}{0.real}" 7\n', 'a7\n', 'printf-compound-field-name'),
        # the text of a string value: a quotation mark written as \" at its start, middle and end
        ('println "\\"hi\\""\n', '"hi"\n', 'stdout-bytes:quoted-text'),
        ('println "say \\"hi\\" now"\n', 'say "hi" now\n', 'stdout-bytes:quoted-text'),
        ('printf "name=\\"{}\\"" 5\n', 'name="5"\n', 'stdout-bytes:quoted-text'),
        ('assign s "\\""\nprintln s\nprintln "\\"\\""\n', '"\n""\n', 'stdout-bytes:quoted-text'),
        ('assign who "world"\nprintf "name=\\"{who}\\""\n', 'name="world"\n', 'stdout-bytes:quoted-text'),
    ]
    for src, want_text, sig in manual:
        got, notes = real.run_jobs([src])
        chk.count()
        if want_text is None:      # order relative to device commands, per light
            want_trace = [('out', 'A:1'), ('dev', 'A'), ('out', ' B:1'), ('dev', 'B'), ('out', '\n')]
            if got != want_trace or notes:
                chk.violation('order-relative-to-device-commands',
                              'output inside a loop over lights: {!r}'.format(got),
                              {'sources': [src], 'expected': want_trace, 'got': got, 'notes': notes})
            continue
        if text_of(got) != want_text or notes:
            chk.violation(sig, '{} {!r} for `{}`, stdout is {!r}'.format(
                'the manual shows' if sig.startswith('manual') else 'documented:',
                want_text, src.strip().replace('\n', ' '), text_of(got)),
                {'sources': [src], 'expected_text': want_text, 'got': got, 'notes': notes})

    # ------------------------------------------------------------------ a whole process
    # "…writes exactly the documented text to standard output": the bytes on the STDOUT of a real
    # process started the way `lsrun` starts (bardolph.controller.run.main: production logging,
    # output and clock bindings, fake lights), for scripts that also make the machine log
    # something (an unknown light, a light of the wrong kind, a fault that ends the script).
    # Diagnostics are not output of the script: they may go anywhere but standard output.
    import shutil
    import subprocess
    import tempfile
    from core import REPO
    process_cases = [
        ('print "a" println "b"', 'a b\n'),
        ('print "a" set "Top" begin end println "b"', 'a b\n'),
        ('print "a" set "nosuch" println "b"', 'a b\n'),
        ('print 1 on "nosuch" print 2 get "Strip" println 3', '1 2 3\n'),
        ('print "before" printf "{:d}" 1.5', 'before\n'),
        ('printf "{} {}" 1 2 off group "nosuch" printf "{}" 3', '1 2 3\n'),
        ('define f begin set "Lamp" zone 1 return 5 end println [f] println [f]', '5\n5\n'),
    ]
    scratch = tempfile.mkdtemp(prefix='c19_cli_')
    try:
        for verbose in ([], ['-v']):
            for src, want in process_cases:
                code = ('import sys; sys.argv = ["lsrun", "-f"] + {!r} + ["-s", {!r}]; '
                        'from bardolph.controller import run; run.main()').format(verbose, src)
                try:
                    r = subprocess.run([sys.executable, '-W', 'ignore', '-c', code], cwd=scratch,
                                       capture_output=True, text=True, timeout=60,
                                       env=dict(os.environ, PYTHONPATH=REPO))
                    got = r.stdout
                except subprocess.TimeoutExpired:
                    got = None
                chk.count()
                stats['whole_process_runs'] = stats.get('whole_process_runs', 0) + 1
                if got != want:
                    chk.violation('stdout-bytes:whole-process',
                                  'lsrun {}-s {!r}: standard output is {!r}, the script writes {!r}'.format(
                                      '-v ' if verbose else '', src, got, want),
                                  {'sources': [src], 'arguments': ['-f'] + verbose + ['-s', src],
                                   'expected_text': want, 'got': got,
                                   'how': 'harness/c19.py: python -c "... run.main()" in a child process'})
                else:
                    chk.nontrivial_case(('process', bool(verbose), src))
    finally:
        shutil.rmtree(scratch, ignore_errors=True)

    # ------------------------------------------------------------------ the Lean model
    answers = chk.driver.ask_many([(c, a) for c, a, _, _, _ in requests])
    n_dis = 0
    n_flag = 0

    def compare_run(case, answer, args):
        nonlocal n_dis
        try:
            trace, tail = render_model_events(answer)
        except RenderFault as rf:
            return rf.index
        except Exception as ex:  # noqa
            chk.disagreement('run', case['sources'], case['got'], 'unreadable answer: {} {!r}'.format(
                ex, answer[:200]))
            n_dis += 1
            return None
        if not tail.endswith(' 0 0'):
            chk.disagreement('run', case['sources'], 'everything flushed', 'model ends with ' + tail)
            n_dis += 1
        if trace != case['got']:
            n_dis += 1
            chk.disagreement('run', case['sources'], case['got'], trace)
        return None

    second = []
    raw_round = []
    for (cmd, args, expect, stream, case), ans in zip(requests, answers):
        if stream == 'run':
            k = compare_run(case, ans, args)
            if k is not None:
                second.append((case, args, k))
        elif stream == 'raw':
            raw_round.append((case, list(args), expect, ans))
        else:
            if ans.rstrip() != expect.rstrip():
                n_dis += 1
                chk.disagreement(stream, case, expect[:200], ans[:200])
    for _ in range(8):
        retry = []
        for case, args, (got, left), ans in raw_round:
            try:
                trace, tail = render_model_events(ans)
            except RenderFault as rf:
                # Python rejects the k-th chunk: flag that OUT PRINTF (pyRaises) and ask again
                fs = [i for i, a in enumerate(args) if a.startswith('F=') and not a.endswith('=1')]
                if rf.index < len(fs):
                    args[fs[rf.index]] += '=1'
                    retry.append((case, args, (got, left)))
                    continue
                trace, tail = 'unrenderable chunk {}'.format(rf.index), ''
            except Exception as ex:  # noqa
                trace, tail = 'unrenderable: {}'.format(ex), ''
            if trace != got or not tail.endswith(' {}'.format(left)):
                n_dis += 1
                chk.disagreement('raw', case, [got, left], [trace, tail])
        if not retry:
            break
        answers3 = chk.driver.ask_many([('out.instrs', a) for _, a, _ in retry])
        raw_round = [(c, a, e, ans) for (c, a, e), ans in zip(retry, answers3)]
    # Python rejects the k-th format chunk the model emitted: that is the Python parameter of the
    # model (pyRaises); set the flag on that statement and ask again
    rounds = 0
    while second and rounds < 8:
        rounds += 1
        todo = []
        for case, args, k in second:
            cand = emitting_printf(args, k)
            if cand is None:
                chk.disagreement('run', case['sources'], case['got'],
                                 'model chunk {} does not render and cannot be located'.format(k))
                n_dis += 1
                continue
            parts = args[cand].split('=')
            parts[2] = '1'
            args = list(args)
            args[cand] = '='.join(parts)
            todo.append((case, args))
            n_flag += 1
        answers2 = chk.driver.ask_many([('out.run', a) for _, a in todo]) if todo else []
        second = []
        for (case, args), ans in zip(todo, answers2):
            k = compare_run(case, ans, args)
            if k is not None:
                second.append((case, args, k))
    for case, _, _ in second:
        chk.disagreement('run', case['sources'], case['got'], 'pyRaises flags did not converge')
        n_dis += 1
    stats['model_requests'] = len(requests)
    stats['model_second_round'] = n_flag
    stats['model_disagreements'] = n_dis
    # two scripts at the same time (harness/twoscripts.py): each must compute what it computes alone
    import twoscripts as _cc
    _problems, _n = _cc.isolation_cases(chk.rng, 25 if chk.thorough else 3)
    stats['concurrent_pairs'] = _n
    chk.count(_n)
    for _p in _problems:
        if _p['kind'] in ('printf', 'fault'):
            chk.violation('stdout-bytes:concurrent-scripts', _p['what'], _p['replay'])
    chk.coverage['distribution'] = stats
    chk.coverage['rule'] = (
        'jobs: generated statement sequences (1-12 statements; print/println with and without '
        'value, printf with 0-4 fields anonymous/numbered/named, conversions, specs by value type, '
        'backslash-n, macro formats; values: int, float, string (empty, spaces, braces, %, #, '
        'non-ASCII), truth values, registers, variables, expressions, built-in and user function '
        'calls), device commands interleaved, 1-4 jobs per process on fresh or the same ScriptJob, '
        'with and without a faulting statement; non-trivial = more than one statement or job, '
        'distinct by AST.  Formatter().parse: every string over {}!:[]a0 up to length ' + str(L) +
        ' plus random strings over a richer alphabet.')
    chk.coverage['rule'] += ' Added late, as a TEST over a fixed list (not a proof): the bytes on the standard output of whole lsrun processes for seven scripts that also make the machine log something.'
    chk.assumptions += [
        'values are rendered by CPython (str(), str.format) on both sides; the model emits chunks',
        'format field names and variable names are ASCII (str.upper / str.isdecimal on other '
        'scripts are not modelled)',
        'expressions and calls are given to the model as the constant the documented arithmetic '
        'yields (their evaluation is property C02/C03); the oracle computes them with Python',
        'a call of a routine that prints, used as a value, is given to the model as the routine\'s '
        'output statement followed by the returned constant (the model has no calls; that the '
        'accumulator survives such a call is C19_reentrant and the raw OUT-sequence stream)',
        'string literals equal to `{`, `[`, `-`, `not` are not generated (the parser reads their '
        'content as punctuation: defect of property C16)',
        'DECISION: between two successive outputs not separated by println exactly one space is '
        'written, whatever the outputs are: an empty string is an output, and a line break inside '
        'a printf text does not end the line for this rule (manual silent; code followed)',
        'DECISION: at the end of a run (normal or faulted) an unterminated line is ended with a '
        'line feed (manual silent; StdOutOutput.flush is written to do so)',
        'DECISION: `printf` takes as many values as its format has anonymous or numbered fields, '
        'also when indexes repeat (`{0} {0}` takes two); the manual only shows distinct indexes',
        'the manual also says "printf appends a line feed"; the property statement, the code and '
        'tests/print_test.py::test_printf say it does not: reported as an open finding',
    ]
    if T:
        chk.leanchecker()
    chk.finish()


_FAULTY_OPERAND = re.compile(r'(=|,)x:(,|$)')


def emitting_printf(args, k):
    """index in `args` of the printf statement whose chunk is the k-th fmt chunk the model
    emitted (a job emits nothing after a flagged printf or a raising operand)"""
    n = 0
    stopped = False
    for i, a in enumerate(args):
        if a == 'job':
            stopped = False
            continue
        if stopped:
            continue
        if _FAULTY_OPERAND.search(a):
            stopped = True
            continue
        if a.startswith('printf='):
            if a.split('=')[2] == '1':
                stopped = True
                continue
            if n == k:
                return i
            n += 1
    return None


def replay(path):
    with open(os.path.join(ROOT, path) if not os.path.isabs(path) else path) as f:
        data = json.load(f)
    rep = data.get('replay', data)
    real = Real()
    if 'sources' in rep and all(isinstance(s, str) for s in rep['sources']):
        got, notes = real.run_jobs(rep['sources'], same_job=rep.get('same_job', False))
        want = rep.get('expected')
        print('got     :', repr(text_of(got)), notes)
        if want is not None:
            want = [tuple(e) for e in want]
            print('expected:', repr(text_of(want)))
            sys.exit(0 if got == want else 1)
        print('expected:', repr(rep.get('expected_text')))
        sys.exit(0 if text_of(got) == rep.get('expected_text') else 1)
    print('replay file has no runnable script:', json.dumps(rep)[:300])
    sys.exit(2)


if __name__ == '__main__':
    run_check(main)
