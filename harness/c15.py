#!/usr/bin/env python3
"""C15 — zone and row/column addressing hits exactly the addressed cells, once each."""
import os
import sys

sys.path.insert(0, os.path.dirname(os.path.abspath(__file__)))
from core import Check, run_check  # noqa: E402
import progcheck  # noqa: E402
import progs  # noqa: E402
import runimpl  # noqa: E402


def num(v):
    return ('num', v)


def color_regs(rng, mode):
    # a share of boundary colours: every component at an end of its range (kelvin 0 is the
    # register's initial value), and black with kelvin 0 — raw [0, 0, 0, 0] — outright
    k = rng.random()
    if k > 0.9:
        # register contents outside the protocol's ranges: whatever a plain `set` makes of them,
        # the cells must carry the same
        names = ('red', 'green', 'blue') if mode == 'rgb' else ('hue', 'saturation', 'brightness')
        big = {'raw': [-100, 70000, 131077, 65536], 'rgb': [-5, 150, 100.5], 'logical': [-30, 400, 725, 360.5]}[mode]
        vals = [rng.choice(big) if rng.random() < 0.6 else 0 for _ in range(3)] + \
            [rng.choice([-100, 70000, 3500, 2500.5])]
        return dict(zip(names + ('kelvin',), vals))
    if k < 0.25:
        top = {'raw': (65535, 65535), 'rgb': (100, 100), 'logical': (360, 100)}[mode]
        names = ('red', 'green', 'blue') if mode == 'rgb' else ('hue', 'saturation', 'brightness')
        if k < 0.1:
            vals = [0, 0, 0, 0]
        else:
            vals = [rng.choice([0, top[0]]), rng.choice([0, top[1]]), rng.choice([0, top[1]]),
                    rng.choice([0, 2500, 9000])]
        return dict(zip(names + ('kelvin',), vals))
    if mode == 'raw':
        return {'hue': rng.randrange(65536), 'saturation': rng.randrange(65536),
                'brightness': rng.randrange(65536), 'kelvin': rng.choice([2500, 3500, 9000])}
    if mode == 'rgb':
        return {'red': rng.randrange(0, 401) / 4.0, 'green': rng.randrange(0, 401) / 4.0,
                'blue': rng.randrange(0, 401) / 4.0, 'kelvin': rng.choice([2500, 3500, 9000])}
    return {'hue': rng.randrange(0, 1441) / 4.0, 'saturation': rng.randrange(0, 401) / 4.0,
            'brightness': rng.randrange(0, 401) / 4.0, 'kelvin': rng.choice([2500, 3500, 9000])}


def set_regs(regs):
    return [('setreg', k, num(v)) for k, v in regs.items()]


_plain_cache = {}


def plain_wire(mode, regs):
    """what a plain `set` transmits for these registers in this mode — the reference the
    property names ("converted exactly as a plain set would convert them")"""
    key = (mode, tuple(sorted(regs.items())))
    if key not in _plain_cache:
        prog = [('units', mode)] + set_regs(regs) + [('action', 'set', [('light', ('str', 'P'))])]
        res = runimpl.run_script(progs.render(prog), [{'label': 'P', 'kind': 'plain'}])
        cs = [e for e in res.events if e[0] == 'C']
        _plain_cache[key] = cs[0][2] if cs else None
    return _plain_cache[key]


def norm(rng_, extent):
    """inclusive range, omitted end = start, omitted clause = full extent"""
    if rng_ is None:
        return 0, extent - 1
    a, b = rng_
    return (a, a) if b is None else (a, b)


def as_range(r):
    if r is None:
        return None
    a, b = r
    return (num(a), None if b is None else num(b))


def indirect(rng, value, helpers):
    """the same number as a literal, a variable, or an expression"""
    k = rng.random()
    if k < 0.5:
        return num(value)
    if k < 0.75:
        name = 'v{}'.format(len(helpers))
        helpers.append(('assign', name, num(value)))
        return ('var', name)
    return ('expr', ('bin', '-', ('bin', '+', num(value), num(3)), num(3)))


def main():
    chk = Check('C15', extra_modules=['Bardolph.Proofs.SemSteps'])
    chk.lean_phase(sections=set())
    rng = chk.rng
    stats = {'zone_cases': 0, 'matrix_cases': 0, 'stages': 0, 'modes': {}, 'sizes': set(),
             'zone_lengths': set(), 'loop_stages': 0}
    n_zone = 3000 if chk.thorough else 600
    n_mat = 3000 if chk.thorough else 600
    cases = []
    # ---- zones
    for _ in range(n_zone):
        length = rng.choice([1, 2, 3, 8, 16, 40, 82])
        mode = rng.choice(['logical', 'raw', 'rgb'])
        regs = color_regs(rng, mode)
        a = rng.randrange(0, length)
        b = None if rng.random() < 0.35 else rng.randrange(a, length)
        helpers = []
        za = indirect(rng, a, helpers)
        zb = None if b is None else indirect(rng, b, helpers)
        dur = rng.choice([0, 1.5])
        prog = [('units', mode)] + set_regs(regs) + [('setreg', 'duration', num(dur))] + helpers + \
            [('action', 'set', [('zone', ('str', 'Z'), za, zb)])]
        pop = [{'label': 'Z', 'kind': 'multizone',
                'zones': [[i, 1, 2, 3] for i in range(length)]},
               {'label': 'Other', 'kind': 'multizone', 'zones': [[7, 7, 7, 7]] * 3}]
        c = progcheck.Case(prog, pop, label='zone')
        c.expect = ('zone', a, a if b is None else b, mode, regs, length)
        cases.append(c)
        stats['zone_lengths'].add(length)
    # ---- matrices
    for i in range(n_mat):
        h = rng.choice([1, 2, 3, 5, 6, 8, 16])
        w = rng.choice([1, 2, 5, 8])
        mode = rng.choice(['logical', 'raw', 'rgb'])
        stats['sizes'].add((h, w))
        pre = [('units', mode)]
        default = None
        if rng.random() < 0.5:
            default = color_regs(rng, mode)
            pre += set_regs(default) + [('action', 'set', 'default')]
        helpers = []
        stages = []      # (rows, cols, regs)
        body = []
        inline = rng.random() < 0.35
        # a block may stage nothing at all: it is empty, or its only stage stands in a branch that
        # is not taken or in a loop that makes no pass — the matrix is transmitted all the same,
        # every cell with the default colour
        n_stages = 1 if inline else rng.choice([0, 1, 1, 2, 2, 3, 4])
        if n_stages == 0:
            dead = set_regs(color_regs(rng, mode)) + [('stage', (num(0), None), None, False)]
            body = rng.choice([[], [('if', ('expr', ('bin', '>', num(1), num(2))), dead, None)],
                               [('repeat', ('count', num(0)), dead)],
                               set_regs(color_regs(rng, mode))])
            stats['blocks_without_a_stage'] = stats.get('blocks_without_a_stage', 0) + 1
        for _ in range(n_stages):
            regs = color_regs(rng, mode)
            prev = stages[-1][2] if stages else default
            if prev is not None and rng.random() < 0.4:
                # this stage's colour differs from the previous one (or from the default colour) in
                # exactly ONE component — e.g. a white-temperature gradient: kelvin only
                regs = dict(prev)
                key = rng.choice(sorted(regs))
                other = [v for v in ([2500, 3500, 4000, 9000] if key == 'kelvin' else
                                     [color_regs(rng, mode).get(key, 0) for _ in range(4)]) if v != regs[key]]
                if other:
                    regs[key] = rng.choice(other)
                stats['one_component_steps'] = stats.get('one_component_steps', 0) + 1
            rows = None if rng.random() < 0.3 else (lambda a: (a, None if rng.random() < 0.4 else rng.randrange(a, h)))(rng.randrange(h))
            cols = None if rng.random() < 0.3 else (lambda a: (a, None if rng.random() < 0.4 else rng.randrange(a, w)))(rng.randrange(w))
            if rows is None and cols is None:
                rows = (rng.randrange(h), None)
            stages.append((rows, cols, regs))

            def rr(r):
                if r is None:
                    return None
                a, b = r
                return (indirect(rng, a, helpers), None if b is None else indirect(rng, b, helpers))
            cf = rng.random() < 0.5
            if inline:
                body = (set_regs(regs), rr(rows), rr(cols), cf)
            else:
                body += set_regs(regs) + [('stage', rr(rows), rr(cols), cf)]
        if not inline and rng.random() < 0.3:
            # a stage driven by a loop index inside the block
            regs = color_regs(rng, mode)
            top = rng.randrange(h)
            body += set_regs(regs) + [('repeat', ('range', 'ri', num(0), num(top)),
                                       [('stage', (('var', 'ri'), None), None, False)])]
            for r in range(0, top + 1):
                stages.append(((r, None), None, regs))
            stats['loop_stages'] += 1
        if not inline and rng.random() < 0.3:
            # a command to another light inside the block (it loads the NAME register): the
            # block's result still goes to the light named in the `set`
            body.insert(rng.randrange(0, len(body) + 1),
                        ('action', rng.choice(['on', 'off']), [('light', ('str', 'N'))]))
            stats['other_light_in_block'] = stats.get('other_light_in_block', 0) + 1
        if rng.random() < 0.25:
            # an earlier row/column command that reaches no matrix (a plain bulb, a strip, a name
            # nobody has): it transmits nothing and the range it names must not survive into the
            # command under test, whose omitted clauses mean the full extent
            a, c0 = rng.randrange(h), rng.randrange(w)
            stray = ('matrix', ('str', rng.choice(['S', 'S', 'Other', 'Nobody'])),
                     (num(a), num(rng.randrange(a, h))), (num(c0), num(rng.randrange(c0, w))), False)
            if rng.random() < 0.3:
                stray = stray[:2] + (stray[2], None, False) if rng.random() < 0.5 else stray[:2] + (None, stray[3], True)
            pre = pre + [('action', 'set', [stray])]
            stats['stray_matrix_command_first'] = stats.get('stray_matrix_command_first', 0) + 1
        if inline:
            regs_stmts, rows_rv, cols_rv, cf = body
            prog = pre + helpers + regs_stmts + \
                [('action', 'set', [('matrix', ('str', 'M'), rows_rv, cols_rv, cf)])]
        else:
            prog = pre + helpers + [('action', 'set', [('matrix_block', ('str', 'M'), body)])]
        pop = [{'label': 'M', 'kind': 'matrix', 'height': h, 'width': w,
                'cells': [[9, 9, 9, 9]] * (h * w)},
               {'label': 'N', 'kind': 'matrix', 'height': 2, 'width': 2},
               {'label': 'S', 'kind': 'plain'},
               {'label': 'Other', 'kind': 'multizone', 'zones': [[7, 7, 7, 7]] * 3}]
        c = progcheck.Case(prog, pop, label='inline' if inline else 'block')
        c.expect = ('matrix', h, w, mode, default, stages)
        cases.append(c)
        stats['stages'] += len(stages)
    # ---- run on the real stack, check the property directly
    for c in cases:
        res = runimpl.run_script(c.text, c.pop)
        c.res = res
        chk.count()
        if not res.compiled or res.fault is not None:
            chk.violation('addressing-script-fails',
                          'script rejected or aborted: {} {}'.format(res.errors.strip()[:80], res.fault),
                          {'script': c.text})
            continue
        dev_events = [e for e in res.events if e[0] in ('C', 'P', 'Z', 'T', 'AC', 'AP')
                      and not (e[0] == 'P' and e[1] == 'N')]
        kind = c.expect[0]
        mode = c.expect[3]
        stats['modes'][mode] = stats['modes'].get(mode, 0) + 1
        if kind == 'zone':
            _, a, b, mode, regs, length = c.expect
            stats['zone_cases'] += 1
            want = plain_wire(mode, regs)
            dev = res.net.device('Z')
            expected = [[i, 1, 2, 3] if not (a <= i <= b) else list(want) for i in range(length)]
            ok = (len(dev_events) == 1 and dev_events[0][0] == 'Z' and dev_events[0][1] == 'Z'
                  and dev.zones == expected
                  and res.net.device('Other').zones == [[7, 7, 7, 7]] * 3)
            if not ok:
                changed = [i for i in range(length) if dev.zones[i] != [i, 1, 2, 3]]
                chk.violation('zone-range-wrong',
                              '`zone {} {}` on {} zones coloured zones {} (events {})'.format(
                                  a, '' if b == a else b, length, changed, dev_events[:2]),
                              {'script': c.text, 'zones_changed': changed, 'expected': [a, b]})
            else:
                chk.nontrivial_case(c.text)
        else:
            _, h, w, mode, default, stages = c.expect
            stats['matrix_cases'] += 1
            base = [0, 0, 0, 0] if default is None else plain_wire(mode, default)
            cells = [list(base) for _ in range(h * w)]
            for rows, cols, regs in stages:
                r0, r1 = norm(rows, h)
                c0, c1 = norm(cols, w)
                wire = plain_wire(mode, regs)
                for r in range(r0, r1 + 1):
                    for col in range(c0, c1 + 1):
                        cells[r * w + col] = list(wire)
            tiles = [e for e in dev_events if e[0] == 'T']
            ok = (len(dev_events) == 1 and len(tiles) == 1 and tiles[0][1] == 'M'
                  and tiles[0][2] == cells and tiles[0][4] == w and tiles[0][5] == h)
            if not ok:
                why = 'events {}'.format([e[0] for e in dev_events])
                if len(tiles) == 1 and tiles[0][2] != cells:
                    got = tiles[0][2]
                    bad = [(k // w, k % w) for k in range(min(len(got), len(cells))) if got[k] != cells[k]]
                    why = 'wrong cells (row, column) {}; e.g. got {} want {}'.format(
                        bad[:6], got[bad[0][0] * w + bad[0][1]] if bad else None,
                        cells[bad[0][0] * w + bad[0][1]] if bad else None)
                chk.violation('matrix-cells-wrong', '{}x{} matrix, {} form: {}'.format(h, w, c.label, why),
                              {'script': c.text, 'height': h, 'width': w})
            else:
                chk.nontrivial_case(c.text)
    for c in cases[:2] + cases[-2:]:
        chk.sample({'script': c.text[:300], 'kind': c.label})
    # ---- tie: model code generator / VM / source semantics on the same scripts
    sub = cases if chk.thorough else cases[::3]
    progcheck.run_cases(chk, [progcheck.Case(c.prog, c.pop) for c in sub], stats=stats,
                        oracle_sig='addressing-trace-differs')
    # ---- "each transmits the whole matrix exactly once": sequences of matrix commands, the same
    # one repeated, with plain commands to the same light in between — one message per command,
    # whether or not the frame equals an earlier one
    seq_pop = [{'label': 'M', 'kind': 'matrix', 'height': 2, 'width': 3}, {'label': 'P', 'kind': 'plain'}]
    forms = {'a': 'set "M" row 0 column 0 1', 'b': 'set "M" begin stage row 1 stage column 2 end',
             'c': 'hue 7 set "M" row 1 hue 100', 'p': 'hue 9 set "M" hue 100', 'o': 'on "M"', 'x': 'set all'}
    n_seq = 0
    for _ in range(300 if chk.thorough else 40):
        seq = [rng.choice('aabbcpox') for _ in range(rng.randint(2, 6))]
        if rng.random() < 0.5:
            k = rng.randrange(len(seq))
            seq.insert(k, seq[k])           # the same command twice in a row
        text = 'units raw hue 100 saturation 200 brightness 300 kelvin 3500\n' + '\n'.join(forms[c] for c in seq) + '\n'
        res = runimpl.run_script(text, seq_pop)
        chk.count()
        n_seq += 1
        want = sum(1 for c in seq if c in 'abc')
        got = sum(1 for e in res.events if e[0] == 'T' and e[1] == 'M')
        if not res.compiled or res.fault is not None or got != want:
            chk.violation('matrix-not-transmitted-once-per-command',
                          '{} matrix commands in a row ({}) transmitted {} matrix message(s){}'.format(
                              want, ' '.join(seq), got, '' if res.fault is None else '; ' + res.fault),
                          {'script': text, 'population': seq_pop})
        else:
            chk.nontrivial_case(('seq', tuple(seq)))
    stats['command_sequences'] = n_seq
    stats['sizes'] = sorted(stats['sizes'])
    stats['zone_lengths'] = sorted(stats['zone_lengths'])
    chk.coverage['distribution'] = stats
    chk.coverage['rule'] = (
        'zone ranges on multizone lights of length 1-82 and one-line / block matrix commands on '
        'matrices 1x1-16x8 (blocks also with a command to another light inside: the result goes to '
        'the light named in the set), ranges given as literals, variables, expressions and loop indices, rows '
        'and columns in either order, with and without a saved default, in the three unit modes; '
        'the state of the simulated device and the single message it received are compared with '
        'the cells the property describes, cell colours with what a plain `set` transmits for the '
        'same registers; non-trivial = distinct script whose device state was exactly as described')
    if chk.thorough:
        chk.leanchecker()
    chk.finish()


if __name__ == '__main__':
    run_check(main)
