#!/usr/bin/env python3
"""C05 — on every path, compiled control transfers stay in the script and frames balance."""
import os
import sys

sys.path.insert(0, os.path.dirname(os.path.abspath(__file__)))
from core import Check, run_check, percent_encode  # noqa: E402
import env  # noqa: E402
import progcheck  # noqa: E402
import progs  # noqa: E402
import vmwire  # noqa: E402


# ---------------------------------------------------------------- independent path explorer
class PathFault(Exception):
    pass


def explore(code, routines, limit=20000):
    """Explore ALL paths of a loaded image with both outcomes of every conditional jump
    (abstract frames only: 'loop', 'pend', ('call', return address)).  Each (pc, frames) state
    is visited once.  Returns None, or a description of the first path on which a control
    transfer goes wrong — the replay for a violation."""
    from bardolph.vm.vm_codes import JumpCondition, OpCode, Operand
    from bardolph.controller.routine import RuntimeRoutine
    n = len(code)
    user = {name: r.get_address() for name, r in routines.items()
            if not isinstance(r, RuntimeRoutine)}
    builtin = {name for name, r in routines.items() if isinstance(r, RuntimeRoutine)}
    # segments of the image
    seg_of = {}
    if user:
        first = code[0]
        if first.op_code is not OpCode.JUMP:
            return 'image with routines does not start with a jump to the main code'
        main_start = first.param1
        i = 1
        while i < main_start:
            if code[i].op_code is not OpCode.ROUTINE:
                return 'instruction {} between routines is not a ROUTINE marker'.format(i)
            name = code[i].param0
            j = i + 1
            while j < main_start and not (code[j].op_code is OpCode.END and code[j].param0 == name):
                j += 1
            if j >= main_start:
                return 'routine {} has no END before the main code'.format(name)
            for k in range(i, j + 1):
                seg_of[k] = name
            i = j + 1
        for k in range(main_start, n + 1):
            seg_of[k] = None
        seg_of[0] = 'prologue'
    else:
        for k in range(0, n + 1):
            seg_of[k] = None
    seen = set()
    stack = [(0, (), ('start',))]
    steps = 0
    while stack:
        pc, frames, path = stack.pop()
        if (pc, frames) in seen:
            continue
        seen.add((pc, frames))
        steps += 1
        if steps > limit:
            return None
        if pc == n:
            if frames:
                return 'program ends with frames left: {} via {}'.format(frames, path[-6:])
            continue
        if pc < 0 or pc > n:
            return 'pc {} outside the program via {}'.format(pc, path[-6:])
        inst = code[pc]
        op = inst.op_code
        # which activation are we in?
        calls = [f for f in frames if isinstance(f, tuple)]
        here = seg_of.get(pc)
        if here == 'prologue':
            pass
        elif calls:
            callee = calls[-1][2]
            if here != callee:
                return 'pc {} is in segment {!r} while executing routine {!r} via {}'.format(
                    pc, here, callee, path[-6:])
        elif here is not None:
            return 'pc {} entered the body of routine {!r} without a call via {}'.format(
                pc, here, path[-6:])
        nxt = []

        def go(npc, nframes, tag):
            nxt.append((npc, nframes, path + ((pc, tag),)))
        if op is OpCode.JUMP:
            if inst.param0 is JumpCondition.INDIRECT or not isinstance(inst.param1, int):
                return 'unresolvable jump at {}'.format(pc)
            if inst.param0 is JumpCondition.ALWAYS:
                go(pc + inst.param1, frames, 'jump')
            else:
                go(pc + inst.param1, frames, 'taken')
                go(pc + 1, frames, 'not-taken')
        elif op is OpCode.LOOP:
            go(pc + 1, frames + ('loop',), '')
        elif op is OpCode.END_LOOP:
            if not frames or frames[-1] != 'loop':
                return 'END_LOOP at {} with top frame {} via {}'.format(
                    pc, frames[-1:] or 'none', path[-6:])
            go(pc + 1, frames[:-1], '')
        elif op is OpCode.CTX:
            go(pc + 1, frames + ('pend',), '')
        elif op is OpCode.PARAM:
            if not frames or frames[-1] != 'pend':
                return 'PARAM at {} without CTX via {}'.format(pc, path[-6:])
            go(pc + 1, frames, '')
        elif op is OpCode.JSR:
            if not frames or frames[-1] != 'pend':
                return 'JSR at {} without CTX via {}'.format(pc, path[-6:])
            name = inst.param0
            if name in user:
                go(user[name], frames[:-1] + (('call', pc + 1, name),), 'call')
            elif name in builtin:
                go(pc + 1, frames[:-1], 'builtin')
            else:
                return 'JSR at {} names unknown routine {!r}'.format(pc, name)
        elif op is OpCode.RETURN or (op is OpCode.END and inst.param0 is not Operand.MATRIX):
            fr = list(frames)
            while fr and fr[-1] == 'loop':
                fr.pop()
            if not fr or not isinstance(fr[-1], tuple):
                return '{} at {} outside a routine call (frames {}) via {}'.format(
                    op.name, pc, frames, path[-6:])
            ret = fr[-1][1]
            if ret >= n or code[ret].op_code is not OpCode.END_CTX:
                return 'return address {} is not an END_CTX'.format(ret)
            go(ret + (1 if op is OpCode.RETURN else 0), tuple(fr[:-1]), 'return')
        elif op is OpCode.ROUTINE:
            return 'ROUTINE marker executed at {} via {}'.format(pc, path[-6:])
        elif op is OpCode.STOP:
            continue
        else:
            go(pc + 1, frames, '')
        stack.extend(nxt)
    return None


def target_preservation(program, code):
    """every jump of the pre-load program leads, after loading, to the instruction it led to
    before.  The post-load position of every instruction is computed from the documented
    layout (jump to main; routine bodies in order; main code in order) and verified against
    the loaded image (same object, or a relocated copy of a jump)."""
    from bardolph.vm.vm_codes import JumpCondition, OpCode
    flags = routine_flags(program)
    n_routine = sum(1 for f in flags if f)
    post_index = {}
    r = m = 0
    for i, f in enumerate(flags):
        if n_routine == 0:
            post_index[i] = i
        elif f:
            post_index[i] = 1 + r
            r += 1
        else:
            post_index[i] = 1 + n_routine + m
            m += 1
    post_index[len(program)] = len(program) + (1 if n_routine else 0)
    if len(code) != post_index[len(program)]:
        return 'loaded image has {} instructions, expected {}'.format(
            len(code), post_index[len(program)])
    for i, inst in enumerate(program):
        other = code[post_index[i]]
        if other is inst:
            continue
        if not (inst.op_code is OpCode.JUMP and other.op_code is OpCode.JUMP
                and other.param0 is inst.param0):
            return 'instruction {} ({}) is not where the layout puts it after loading'.format(
                i, inst.op_code.name)
    for i, inst in enumerate(program):
        if inst.op_code is OpCode.JUMP and inst.param0 is not JumpCondition.INDIRECT:
            t = i + inst.param1
            if not (0 <= t <= len(program)):
                return 'pre-load jump {} leaves the program'.format(i)
            j = post_index[i]
            new_t = j + code[j].param1
            exp = expected_target(program, post_index, i, t)
            if new_t != exp:
                return ('jump at {} led to instruction {} ({}) before loading and leads to {} '
                        'after loading (expected {})'.format(i, t, describe(program, t), new_t, exp))
    return None


def expected_target(program, post_index, i, t):
    """where the pre-load target `t` of the jump at `i` lives after loading: the target itself
    when it stays in the same segment; when the target is the start of a routine definition
    that was moved out of the main code, the first main instruction after it"""
    from bardolph.vm.vm_codes import OpCode
    n = len(program)
    in_routine = routine_flags(program)
    if t == n:
        return post_index[n]
    if not in_routine[i] and in_routine[t]:
        while t < n and in_routine[t]:
            t += 1
    return post_index[t]


def routine_flags(program):
    from bardolph.vm.vm_codes import OpCode
    flags = []
    name = None
    for inst in program:
        if name is None:
            if inst.op_code is OpCode.ROUTINE:
                name = inst.param0
            flags.append(name is not None)
        else:
            flags.append(True)
            if inst.op_code is OpCode.END and inst.param0 == name:
                name = None
    return flags


def describe(program, t):
    return program[t].op_code.name if t < len(program) else 'end'


DYN_POP = [{'label': 'Top', 'group': 'Pole', 'location': 'Home', 'kind': 'plain'},
           {'label': 'Middle', 'group': 'Pole', 'location': 'Home', 'kind': 'plain'},
           {'label': 'Strip', 'group': 'Den', 'location': 'Home', 'kind': 'multizone', 'zones': [[0, 0, 0, 3500]] * 8},
           {'label': 'Candle', 'group': 'Den', 'location': 'Office', 'kind': 'matrix', 'height': 3, 'width': 2}]


def c05_generate(rng, thorough):
    """control-flow heavy scripts: definitions inside if/repeat bodies, breaks in else
    branches, returns inside nested loops, calls as arguments"""
    prog, pop = progs.generate(rng, size=14 if thorough else 10, max_depth=4,
                               features={'nested_define': True})
    return prog, pop


def main():
    chk = Check('C05', extra_modules=['Bardolph.Proofs.Ctl', 'Bardolph.Proofs.WfCert'])
    chk.lean_phase(sections=set())
    env.configure_basic()
    from bardolph.parser.parse import Parser
    rng = chk.rng
    n = 6000 if chk.thorough else 700
    stats = {'programs': 0, 'rejected': 0, 'images_with_routines': 0, 'jumps': 0, 'not_wf': 0,
             'loader_mismatch': 0, 'paths_states': 0, 'nested_defines': 0}
    reqs = []
    items = []
    import c06
    import runimpl
    dyn_budget = [2500 if chk.thorough else 350]
    dyn_cases = []
    todo = []
    for i in range(n):
        prog, pop = c05_generate(rng, chk.thorough)
        if i < len(CORPUS):
            prog = CORPUS[i]
        todo.append((prog, progs.render(prog), True))
    # `break` at every position of every nesting of loop / if / definition / matrix block: whatever
    # the compiler accepts of these must be an image in which control stays inside its routine
    # (whether it SHOULD accept them is C06's question)
    for text, _expect, _label in c06.SCOPES:
        todo.append(([], text, False))
    stats['scope_texts'] = len(c06.SCOPES)
    # every scope text once more, as it is (the copies above go to a parser with a history)
    for text, _expect, _label in c06.SCOPES:
        todo.append(([], text, None))
    # texts that define a name twice (C06 says they are rejected): whatever the compiler accepts
    # of them must still be an image in which every call leads to the routine the source names
    for label, text in c06.RULES:
        if label.startswith('redefine'):
            todo.append(([], text, False))
            stats['redefinition_texts'] = stats.get('redefinition_texts', 0) + 1
    # the scope and redefinition texts are compiled by a parser that has just FAILED in the middle
    # of a loop, a routine, a matrix block or an expression (a ScriptJob keeps its parser): what
    # the earlier compile left behind must not let a stray `break` or a second definition through
    poisons = ['repeat 2 begin nosuch end', 'define f begin repeat 3 begin hue nosuch end end',
               'set "Candle" begin stage row 0 nosuch', 'repeat all as x begin repeat 2 begin print {x +',
               'define g with a begin if {a > 0} begin return nosuch end end']
    n_poisoned = 0
    for prog, text, must_accept in todo:
        parser = Parser()
        if must_accept is False:
            parser.parse(poisons[n_poisoned % len(poisons)])
            n_poisoned += 1
        chk.count()
        try:
            ok = parser.parse(text)
        except Exception as ex:  # noqa
            chk.violation('compiler-raises', 'compiler raised {}'.format(type(ex).__name__),
                          {'script': text})
            continue
        if not ok and not must_accept:
            stats['scope_texts_rejected'] = stats.get('scope_texts_rejected', 0) + 1
            continue
        if not ok:
            stats['rejected'] += 1
            chk.violation('generated-script-rejected',
                          'a well-formed generated script is rejected: ' + parser.get_errors().strip()[:120],
                          {'script': text, 'errors': parser.get_errors()})
            continue
        program = list(parser.get_program())
        code, routines_all = None, None
        from bardolph.vm.loader import Loader
        ld = Loader()
        ld.load(program)
        code = ld.get_code()
        routines_all = ld.get_routines()
        stats['programs'] += 1
        rts = {k: v for k, v in routines_all.items() if k not in progs.BUILTIN_PARAMS}
        if rts:
            stats['images_with_routines'] += 1
        from bardolph.vm.vm_codes import OpCode
        stats['jumps'] += sum(1 for x in code if x.op_code is OpCode.JUMP)
        if any(st[0] in ('if', 'repeat') and contains_define(st) for st in prog):
            stats['nested_defines'] += 1
        # oracle 1: explicit exploration of every path of the implementation's image
        bad = explore(code, routines_all)
        if bad is not None:
            chk.violation('control-transfer-wrong', bad, {'script': text,
                          'image': [str(x) for x in code]})
        # oracle 1b: a call is bound by name when the image is loaded, but the source binds it to
        # the definition in force where the call is written; the two agree only if no name has
        # two routines (two definitions, or a definition with the name of a built-in function)
        seen = set(progs.BUILTIN_PARAMS)
        for x in program:
            if x.op_code is OpCode.ROUTINE:
                if x.param0 in seen:
                    chk.violation('call-target-ambiguous',
                                  'the image holds two routines called "{}": calls written before the '
                                  'second definition are led into it'.format(x.param0),
                                  {'script': text, 'image': [str(y) for y in code]})
                    bad = bad or 'two routines called ' + str(x.param0)
                seen.add(x.param0)
        # oracle 2: loading preserves where every branch leads
        bad = target_preservation(program, code)
        if bad is not None:
            chk.violation('load-changes-branch-target', bad, {'script': text})
        # the program was not modified by loading
        if [vmwire.enc_instr_fixed(a) for a in parser.get_program()] != \
                [vmwire.enc_instr_fixed(a) for a in program]:
            chk.violation('load-modifies-program', 'loading changed the compiled program',
                          {'script': text})
        # oracle 3 (below, after the loop): the REAL machine on this program
        if must_accept and prog and dyn_budget[0] > 0:
            dyn_budget[0] -= 1
            dyn_cases.append(progcheck.Case(prog, DYN_POP, text=text))
        reqs.append(progcheck.image_request(code, rts))
        reqs.append(('vm.loadfull', vmwire.enc_program(program)))
        items.append((text, code, rts, bad))
        if bad is None:
            chk.nontrivial_case(text)
        if len(chk.coverage['samples']) < 3:
            chk.sample({'script': text[:300], 'image_len': len(code), 'routines': sorted(rts)})
    # oracle 3: the image is only half of the property; the transfers happen in
    # Machine._jump/_jsr/_return/_end_loop.  The real machine's trace must be the one the
    # source-level semantics gives (a wrong transfer shows as a different trace or an abort), and
    # the run must end with every frame popped and nothing on the evaluation stack.
    dstats = {}
    progcheck.run_cases(chk, dyn_cases, oracle_sig='control-transfer-wrong:on-the-real-machine',
                        do_gen=False, do_vm=False, do_sem=True, stats=dstats)
    stats['executed_on_real_vm'] = dstats
    for c in dyn_cases:
        res = c.res
        if res is None or not res.compiled or res.timeout or res.fault is not None:
            continue
        fr, depth = res.job._machine._call_stack.get_top(), 0
        while getattr(fr, 'parent', None) is not None:
            depth += 1
            fr = fr.parent
        left = res.job._machine._vm_math.stack_height()
        if depth != 0 or left != 0:
            chk.violation('frames-do-not-balance',
                          'after the run {} frame(s) are still on the call stack and {} value(s) on the '
                          'evaluation stack'.format(depth, left), {'script': c.text})
    answers = chk.driver.ask_many(reqs)
    for k, (text, code, rts, bad) in enumerate(items):
        wf, full = answers[2 * k], answers[2 * k + 1]
        if wf != 'wf':
            stats['not_wf'] += 1
            if bad is None:
                # the proved checker rejects an image on which the path explorer found nothing:
                # the image is outside what the theorem covers -> no longer shown to hold
                chk.disagreement('vm.wfimage', {'script': text}, 'explorer: ok', wf)
        elif bad is not None:
            chk.disagreement('vm.wfimage', {'script': text}, 'explorer: ' + bad, wf)
        table, _, body = full.partition('\x1e')
        model_code = body.split('\x1f') if body else []
        impl_code = [percent_encode(x) for x in vmwire.enc_program(code)]
        model_table = sorted(x for x in table.split(',') if x)
        impl_table = sorted('{}={}'.format(percent_encode(vmwire._esc(nm)), r.get_address())
                            for nm, r in rts.items())
        if model_code != impl_code or model_table != impl_table:
            stats['loader_mismatch'] += 1
            j = next((i for i, (a, b) in enumerate(zip(impl_code, model_code)) if a != b), -1)
            chk.disagreement('vm.loadfull', {'script': text, 'index': j},
                             (impl_code[j] if 0 <= j < len(impl_code) else str(impl_table)),
                             (model_code[j] if 0 <= j < len(model_code) else str(model_table)))
    chk.coverage['distribution'] = stats
    chk.coverage['rule'] = (
        'control-flow-heavy generated scripts (routine definitions inside if/repeat bodies, breaks '
        'in else branches, returns in nested loops); for each the implementation\'s own compiled '
        'program and loaded image are (a) explored on ALL paths with both outcomes of every '
        'conditional jump by an independent explorer, (b) checked for branch-target preservation '
        'across loading, (c) given to the Lean checker wfImage whose soundness is a theorem, '
        '(d) compared with the model loader; non-trivial = distinct script whose image passed')
    chk.coverage['exhaustive'] = False
    chk.assumptions += ['the path explorer abstracts data: both outcomes of every conditional '
                        'jump are followed, iteration counts are not bounded by data']
    if chk.thorough:
        chk.leanchecker()
    chk.finish()


def contains_define(st):
    if st[0] == 'define':
        return True
    if st[0] == 'if':
        return any(contains_define(x) for x in st[2]) or \
            (st[3] is not None and any(contains_define(x) for x in st[3]))
    if st[0] == 'repeat':
        return any(contains_define(x) for x in st[2])
    return False


def _corpus():
    num = lambda v: ('num', v)  # noqa
    cond = ('expr', ('bin', '==', ('var', 'x'), num(1)))
    return [
        [('assign', 'x', num(1)),
         ('if', cond, [('define', 'f', [], [('print', num(7))]), ('print', num(1))], None),
         ('print', num(2)),
         ('if', cond, [('print', num(9)), ('define', 'g', [], [('print', num(8))])], [('print', num(3))]),
         ('call', 'f', [], False), ('call', 'g', [], False)],
        # a routine defined inside a loop has its own loops: its break must stay inside it
        [('assign', 'x', num(1)),
         ('repeat', ('count', num(2)),
          [('define', 'inner', [], [('repeat', ('count', num(2)), [('break',)]), ('print', num(4))]),
           ('call', 'inner', [], False), ('break',)])],
        [('assign', 'x', num(1)),
         ('repeat', ('count', num(2)),
          [('define', 'h', ['a'], [('repeat', ('count', num(3)),
                                    [('if', cond, [('return', ('var', 'a'))], [('break',)])]),
                                   ('return', num(0))]),
           ('if', cond, [('break',)], [('print', num(1))])]),
         ('print', ('call', 'h', [num(5)]))],
        # `return` taken inside two and inside three nested loops of the routine (counted, ranged,
        # list and while loops): every loop that was entered is left, the call's frame is left,
        # and the statement after the call runs
        [('assign', 'x', num(1)),
         ('define', 'find', ['t'],
          [('repeat', ('range', 'i', num(1), num(3)),
            [('repeat', ('range', 'j', num(1), num(3)),
              [('if', ('expr', ('bin', '==', ('bin', '*', ('var', 'i'), ('var', 'j')), ('var', 't'))),
                [('return', ('expr', ('bin', '+', ('bin', '*', ('var', 'i'), num(10)), ('var', 'j'))))], None)])]),
           ('return', num(0))]),
         ('print', ('call', 'find', [num(6)])), ('print', ('call', 'find', [num(7)])),
         ('repeat', ('count', num(2)), [('print', ('call', 'find', [num(2)]))]), ('print', num(99))],
        [('assign', 'x', num(1)),
         ('define', 'deep', ['t'],
          [('assign', 'c', num(0)),
           ('repeat', ('count', num(2)),
            [('repeat', ('in', [('light', ('str', 'p')), ('light', ('str', 'q'))], 'u', None),
              [('repeat', ('while', ('expr', ('bin', '<', ('var', 'c'), num(50))), 'c'),
                [('assign', 'c', ('expr', ('bin', '+', ('var', 'c'), num(1)))),
                 ('if', ('expr', ('bin', '>=', ('var', 'c'), ('var', 't'))), [('return', ('var', 'c'))], None),
                 ('if', ('expr', ('bin', '==', ('bin', '%', ('var', 'c'), num(3)), num(0))), [('break',)], None)])])]),
           ('return', num(-1))]),
         ('print', ('call', 'deep', [num(1)])), ('print', ('call', 'deep', [num(5)])),
         ('print', ('call', 'deep', [num(100)])), ('print', num(98))],
        # empty blocks: an `if` whose else block (or then block, or both) is `begin end`, taken on
        # its false and on its true path — at top level, inside another if/else, as the last
        # statement of a routine, at the end of a loop body, and as the last statement of the script
        [('assign', 'x', num(1)), ('assign', 'y', num(0)),
         ('if', ('expr', ('bin', '>', ('var', 'y'), num(0))), [('print', num(1))], []),
         ('print', num(2)),
         ('if', cond, [], [('print', num(3))]), ('print', num(4)),
         ('if', cond, [('if', ('expr', ('bin', '>', ('var', 'y'), num(0))), [('print', num(5))], []),
                       ('print', num(6))], [('print', num(99))]),
         ('if', ('expr', ('bin', '>', ('var', 'y'), num(0))), [], []), ('print', num(7)),
         ('define', 'last', ['p'], [('print', ('var', 'p')),
                                    ('if', ('expr', ('bin', '>', ('var', 'p'), num(0))), [('print', num(8))], [])]),
         ('call', 'last', [num(0)], False), ('print', num(9)), ('call', 'last', [num(1)], False),
         ('repeat', ('count', num(3)),
          [('print', num(10)), ('if', ('expr', ('bin', '>', ('var', 'y'), num(0))), [('print', num(11))], [])]),
         ('repeat', ('count', num(2)), []), ('print', num(12)),
         ('if', ('expr', ('bin', '>', ('var', 'y'), num(0))), [('print', num(13))], [])],
    ]


CORPUS = _corpus()

if __name__ == '__main__':
    run_check(main)
