#!/usr/bin/env python3
"""C07 — transmitted colours and durations are in protocol range and numerically exact."""
import json
import math
import os
import sys
from fractions import Fraction as F

sys.path.insert(0, os.path.dirname(os.path.abspath(__file__)))
from core import Check, run_check  # noqa: E402
import units_common as uc  # noqa: E402
from units_common import Case, HALF, KNIFE, U16, U32  # noqa: E402


class C07:
    def __init__(self, chk):
        self.chk = chk
        self.bench = uc.Bench()
        self.stats = {}
        self.knife_oracle = 0
        self.knife_model = 0
        self.max_gap = 0.0          # largest relative float-vs-exact gap seen (function level)
        self.requests = []          # (cmd, args, callback)
        self.matrix_early_rounding = self.detect_matrix_rounding()

    def bump(self, key, n=1):
        self.stats[key] = self.stats.get(key, 0) + n

    # ------------------------------------------------------------ matrix quirk (C15's defect)
    def detect_matrix_rounding(self):
        ev, _, _, _ = self.bench.run('saturation 50.4 brightness 50 set "M" row 0 column 1\n')
        try:
            sat = ev[0][2][0][1][1]
        except Exception:  # noqa
            return False
        return sat != round(50.4 / 100 * 65535)

    # ------------------------------------------------------------ one executed case
    def judge(self, case, result):
        """oracle on what the real code transmitted; returns the fields for the model leg"""
        chk = self.chk
        chk.count()
        self.bump('cases:' + case.kind)
        self.bump('mode:' + case.mode)
        sig_tail = ':{}:{}'.format(case.kind, case.mode)
        if not isinstance(result, list):
            what = {'aborted': 'the script aborted at this command, nothing was transmitted',
                    'silent': 'the command transmitted nothing'}.get(result, 'unexpected requests')
            chk.violation('no-transmission-' + (result if isinstance(result, str) else 'unexpected')
                          + sig_tail, '{}: {}'.format(case.script().strip(), what),
                          dict(case.describe(), population=uc.POP, observed=repr(result)))
            return None
        fields = uc.event_fields(case.kind, result)
        first = fields[0]
        for other in fields[1:]:
            if other != first:
                chk.violation('members-differ' + sig_tail,
                              'members of one group/location got different values',
                              dict(case.describe(), observed=repr(fields)))
        color, power, duration = first
        values = list(color or []) + ([power] if power is not None else []) + [duration]
        if any(type(v) is not int for v in values):
            chk.violation('not-an-integer' + sig_tail,
                          'transmitted {} (types {})'.format(values, [type(v).__name__ for v in values]),
                          dict(case.describe(), observed=repr(first)))
            return None
        ok_range = (all(0 <= v <= U16 for v in (color or [])) and
                    (power is None or 0 <= power <= U16) and 0 <= duration <= U32)
        if not ok_range:
            chk.violation('out-of-range' + sig_tail, 'transmitted {}'.format(values),
                          dict(case.describe(), observed=repr(first)))
        # exactness
        lenient = (case.kind == 'matrix' and self.matrix_early_rounding and case.mode != 'raw')
        if color is not None:
            spec = uc.spec_color(case)
            names = ('hue', 'saturation', 'brightness', 'kelvin')
            for i, (target, circ) in enumerate(spec):
                if target is None:
                    self.bump('range-only-components')
                    continue
                tol = HALF
                if lenient:
                    if case.mode == 'rgb':
                        if any(F(case.reg(n)).denominator != 1 for n in ('red', 'green', 'blue')) or \
                                (i == 3 and F(case.reg('kelvin')).denominator != 1):
                            self.bump('matrix-lenient-skipped')
                            continue
                    else:
                        src = (case.reg('hue'), case.reg('saturation'), case.reg('brightness'),
                               case.reg('kelvin'))[i]
                        if src < 0 or src > U16:
                            # the early _standardize_raw also clamps the logical value
                            self.bump('matrix-lenient-skipped')
                            continue
                        if F(src).denominator != 1:
                            unit = (F(U16, 360), F(U16, 100), F(U16, 100), F(1))[i]
                            tol = unit / 2 + 1
                            self.bump('matrix-lenient-tolerance')
                d = uc.distance(color[i], target, circ)
                if d <= tol:
                    continue
                knife = KNIFE
                if case.mode == 'rgb' and i == 0:
                    knife = max(KNIFE, uc.hue_float_slack(case.reg('red'), case.reg('green'),
                                                          case.reg('blue'), U16))
                if d <= tol + knife:
                    self.knife_oracle += 1
                    continue
                chk.violation(
                    'inexact-{}{}'.format(names[i], sig_tail),
                    '{}: {} transmitted as {}, the exact value is {:.4f}'.format(
                        case.script().strip(), names[i], color[i], float(target)),
                    dict(case.describe(), population=uc.POP, component=names[i],
                         transmitted=color[i], exact=str(target)))
        if power is not None:
            want_on = not case.off
            if (want_on and power not in (1, U16)) or (not want_on and power != 0):
                chk.violation('power-level' + sig_tail,
                              '{} transmitted power {}'.format(case.command_text(), power),
                              dict(case.describe(), observed=repr(first)))
        target = uc.spec_duration(case)
        d = abs(duration - target)
        if d > HALF:
            if d <= HALF + KNIFE:
                self.knife_oracle += 1
            else:
                chk.violation(
                    'inexact-duration' + sig_tail,
                    '{}: duration transmitted as {} ms, the exact value is {:.4f} ms'.format(
                        case.script().strip(), duration, float(target)),
                    dict(case.describe(), population=uc.POP, transmitted=duration,
                         exact=str(target)))
        return first

    def model_leg(self, case, observed):
        """queue the model request for a judged case"""
        if observed is None:
            return
        color, power, duration = observed
        if case.kind == 'matrix' and self.matrix_early_rounding and case.mode != 'raw':
            names = ('red', 'green', 'blue', 'kelvin') if case.mode == 'rgb' else \
                ('hue', 'saturation', 'brightness', 'kelvin')
            if any(F(case.reg(n)).denominator != 1 or case.reg(n) < 0 or case.reg(n) > U16
                   for n in names):
                self.bump('matrix-model-skipped')
                return
        impl = '{} {} {}'.format(' '.join(map(str, color)) if color is not None else '-',
                                 power if power is not None else '-', duration)

        def cb(answer, case=case, impl=impl):
            parts = answer.split(' ; ')
            if len(parts) != 3:
                self.chk.disagreement('u.emit', case.describe(), impl, answer)
                return
            if parts[0] == impl:
                return
            margin = uc.tie_margin([F(x) for x in parts[1].split()])
            knife = KNIFE
            if case.mode == 'rgb':
                knife = max(KNIFE, uc.hue_float_slack(case.reg('red'), case.reg('green'),
                                                      case.reg('blue'), U16))
            if margin is not None and margin < knife:
                self.knife_model += 1
                return
            self.chk.disagreement('u.emit:' + case.kind, case.describe(), impl, parts[0])
        self.requests.append(('u.emit', [case.kind] + case.driver_regs(), cb))

    def run_cases(self, cases, nontrivial=True):
        by_mode = {}
        for c in cases:
            by_mode.setdefault(c.mode, []).append(c)
        for mode, lst in by_mode.items():
            for i in range(0, len(lst), 4000):
                chunk = lst[i:i + 4000]
                results = self.bench.run_batch(mode, chunk)
                for c, r in zip(chunk, results):
                    obs = self.judge(c, r)
                    self.model_leg(c, obs)
                    if nontrivial:
                        self.chk.nontrivial_case((c.mode, c.kind, tuple(sorted(
                            (k, float(v)) for k, v in c.regs.items())), c.off))

    # ------------------------------------------------------------ function-level stream
    def function_level(self, name, colors):
        """units.<name> on exact inputs: float result vs the model's exact fractions"""
        from bardolph.controller import units
        fn = getattr(units, name)
        for col in colors:
            try:
                got = fn(list(col))
            except Exception as ex:  # noqa
                self.chk.violation('conversion-raises:' + name,
                                   'units.{}({}) raises {}'.format(name, list(col), type(ex).__name__),
                                   {'function': name, 'argument': [repr(x) for x in col]})
                continue
            self.chk.count()

            def cb(answer, got=got, col=col, name=name):
                try:
                    want = [F(x) for x in answer.split()]
                except ValueError:
                    self.chk.disagreement('u.conv:' + name, [repr(x) for x in col], repr(got), answer)
                    return
                for g, w in zip(got, want):
                    if isinstance(g, int) and w.denominator == 1 and g == w:
                        continue
                    gap = abs(F(g) - w)
                    rel = float(gap / max(abs(w), 1))
                    if rel > self.max_gap and rel < 1e-6:
                        self.max_gap = rel
                    if rel > 1e-9:
                        if name in ('rgb_to_raw', 'rgb_to_logical') and g is got[0] and \
                                gap <= uc.hue_float_slack(col[0], col[1], col[2],
                                                          U16 if name == 'rgb_to_raw' else 360):
                            continue        # hue of a nearly grey colour: ulp / spread
                        if name == 'rgb_to_raw' and gap == 1:
                            # an integer result one off: decided by the rounding inside make_raw
                            self.knife_model += 1
                            continue
                        self.chk.disagreement('u.conv:' + name, [repr(x) for x in col],
                                              repr(got), answer)
                        return
            self.requests.append(('u.conv', [name] + [uc.frac_text(x) for x in col], cb))

    def flush_requests(self):
        reqs = self.requests
        self.requests = []
        for i in range(0, len(reqs), 50000):
            part = reqs[i:i + 50000]
            answers = self.chk.driver.ask_many([(c, a) for c, a, _ in part])
            for (_, _, cb), ans in zip(part, answers):
                cb(ans)
        self.bump('model_requests', len(reqs))


# ---------------------------------------------------------------- value sets
def raw_values(chk):
    if chk.big:
        return list(range(65536))
    vals = set(range(0, 65536, 16))
    vals.update([0, 1, 2, 3, 255, 256, 257, 32766, 32767, 32768, 32769, 65533, 65534, 65535])
    vals.update(chk.rng.randrange(65536) for _ in range(100))
    return sorted(vals)


def logical_grid(chk):
    """values of a logical component: a grid over and beyond the valid range"""
    step = F(1, 64) if chk.big else F(1, 4)
    vals = set()
    x = F(-50)
    while x <= 500:
        vals.add(float(x))
        x += step
    if not chk.big:
        for _ in range(600):
            vals.add(chk.rng.randrange(-50 * 64, 500 * 64 + 1) / 64.0)
    return sorted(vals)


def near(x):
    return [math.nextafter(x, -math.inf), x, math.nextafter(x, math.inf)]


def boundary_logical():
    eps = 1.0 / 65536.0 / 2.0
    out = []
    for b in (0.0, 360.0, 100.0, 720.0, -360.0, 180.0, 50.0):
        out += near(b)
        out += [b - eps, b + eps] + near(b - eps) + near(b + eps)
        out += [b - 1e-9, b + 1e-9, b - 0.001, b + 0.001]
    out += [-1e-300, 1e-300, 359.99999999, 99.99999999, 1e6, 1e9, 1e15, -1e9, 12345678.9,
            10 ** 20, -(10 ** 20), 2 ** 70, 100, 360, 0, 1, 359]   # huge, but exact as floats
    return out


def tie_adjacent_logical(chk, scale, n):
    """logical values whose raw image lies next to a rounding tie k + 1/2"""
    out = []
    for _ in range(n):
        k = chk.rng.randrange(0, 65535)
        x = (k + 0.5) / 65535.0 * scale
        out += near(x)
    return out


def main():
    chk = Check('C07')
    if '--replay' in sys.argv:
        return replay(chk, sys.argv[sys.argv.index('--replay') + 1])
    chk.lean_phase(sections={'Units'})
    # a proof or the tie no longer checks: search with the thorough-sized generation (DESIGN §5)
    chk.big = chk.thorough or bool(chk.broken)
    chk.coverage['escalated_search'] = bool(chk.broken) and not chk.thorough
    t = C07(chk)
    rng = chk.rng
    quick = not chk.big
    raws = raw_values(chk)
    perm = lambda x: (x * 40503 + 7) % 65536  # noqa: E731  a permutation of 0..65535

    # ---- 1. raw values through every command kind
    for kind in uc.COLOR_KINDS:
        cases = [Case('raw', {'hue': x, 'saturation': 65535 - x, 'brightness': perm(x),
                              'kelvin': perm(perm(x)), 'duration': perm(x) % 5000}, kind)
                 for x in raws]
        t.run_cases(cases)
    # raw values that are not integers, or outside the range: nearest integer, clamped
    odd = []
    for x in [0.5, 1.5, 2.5, 65534.5, 65535.4, 65535.5, 65536, 70000, -1, -0.5, -0.4, 0.49999999,
              1e9, -1e9, 32767.5, 32768.5, 12345.678] + [rng.randrange(0, 65535) + 0.5 for _ in range(40)] \
            + [rng.uniform(-10, 65600) for _ in range(200)]:
        for kind in ('light', 'all', 'zone', 'matrix', 'group'):
            odd.append(Case('raw', {'hue': x, 'saturation': x, 'brightness': x, 'kelvin': x,
                                    'duration': x}, kind))
    t.run_cases(odd)

    # ---- 2. raw -> logical -> raw: a colour read from a light and sent back from logical mode
    r2l = []
    for x in raws:
        k = perm(x) % 9001
        text = ('units raw hue {x} saturation {x} brightness {x} kelvin {k} set "A" '
                'units logical get "A" set "A"'.format(x=x, k=k))
        r2l.append((x, k, text))
    for i in range(0, len(r2l), 4000):
        chunk = r2l[i:i + 4000]
        events, _, finished, job = t.bench.run('\n'.join(c[2] for c in chunk) + '\n')
        if events is None or not finished or len(events) != 2 * len(chunk):
            chk.violation('raw-logical-raw-script-failed', 'get/set round trip script did not run through',
                          {'script': chunk[0][2], 'finished': finished,
                           'events': None if events is None else len(events)})
            continue
        for j, (x, k, text) in enumerate(chunk):
            chk.count()
            sent = events[2 * j][2][0]
            back = events[2 * j + 1][2][0]
            want = [0 if x == 65535 else x, x, x, k]
            if sent != [x, x, x, k]:
                chk.violation('raw-passthrough', 'raw colour {} transmitted as {}'.format([x, x, x, k], sent),
                              {'script': text})
            if back != want:
                chk.violation('raw-logical-raw',
                              'raw {} read back and re-sent from logical units became {}'.format(
                                  [x, x, x, k], back), {'script': text, 'population': uc.POP})
            chk.nontrivial_case(('r2l2r', x))

            def cb(answer, x=x, back=back):
                if answer.split(' ; ')[0] != '{} {} {}'.format(*back[:3]):
                    chk.disagreement('u.r2l2r', x, back, answer)
            t.requests.append(('u.r2l2r', [str(x)], cb))
    t.stats['raw_logical_raw_values'] = len(r2l)
    # registers after `get`, printed, in logical and rgb units, against the exact model
    sample = raws if chk.big else raws[::8]
    for mode, fn in (('logical', 'raw_to_logical'), ('rgb', 'raw_to_rgb')):
        t.function_level(fn, [(x, 65535 - x, perm(x), 3000) for x in sample])
    printed = []
    for x in sample[:: (16 if chk.big else 4)]:
        printed.append((x, 'units raw hue {x} saturation {y} brightness {z} kelvin 3000 set "A" '
                           'units logical get "A" print hue print saturation print brightness '
                           'print kelvin'.format(x=x, y=65535 - x, z=perm(x))))
    events, trace, finished, _ = t.bench.run('\n'.join(p[1] for p in printed) + '\n')
    outs = [e[1] for e in trace if e[0] == 'out']
    if not finished or len(outs) != 4 * len(printed):
        chk.violation('get-print-script-failed', 'get/print script did not run through',
                      {'script': printed[0][1]})
    else:
        from bardolph.controller import units as U
        for j, (x, text) in enumerate(printed):
            got = outs[4 * j:4 * j + 4]
            want = U.raw_to_logical([x, 65535 - x, perm(x), 3000])
            chk.count()
            if got != want:
                chk.violation('get-registers', '`get` left {} in the registers, raw_to_logical gives {}'.format(
                    got, want), {'script': text})

    # ---- 3. logical values: grid, boundaries, tie-adjacent, through every command kind
    grid = logical_grid(chk)
    t.stats['logical_grid_values'] = len(grid)
    special = boundary_logical() + tie_adjacent_logical(chk, 360.0, 150) + \
        tie_adjacent_logical(chk, 100.0, 150)
    cases = []
    n = len(grid)
    for i, x in enumerate(grid):
        # hue runs over the whole grid; saturation/brightness/duration take other grid points
        cases.append(Case('logical', {'hue': x, 'saturation': grid[(i * 7 + 3) % n],
                                      'brightness': grid[(i * 13 + 5) % n], 'kelvin': 2700,
                                      'duration': grid[(i * 11 + 1) % n]}, 'light'))
    for x in special:
        cases.append(Case('logical', {'hue': x, 'saturation': x, 'brightness': x,
                                      'kelvin': 3500.5 if isinstance(x, float) else 3500,
                                      'duration': x}, 'light'))
    t.run_cases(cases)
    for kind in uc.COLOR_KINDS[1:]:
        sub = cases if chk.big else rng.sample(cases, 1200) + cases[-len(special):]
        t.run_cases([Case(c.mode, c.regs, kind) for c in sub])
    # kelvin: passes through (nearest integer, clamped)
    kel = [0, 1, 1500, 2700, 2700.5, 2701.5, 9000, 65535, 65535.5, 65536, 70000, -1, -0.5, 0.5, 1e9]
    kel += [rng.randrange(0, 65536) for _ in range(200)] + [rng.uniform(-100, 66000) for _ in range(100)]
    kc = []
    for mode in uc.MODES:
        for k in kel:
            for kind in (uc.COLOR_KINDS if chk.big else ('light', 'all', 'zone', 'matrix')):
                kc.append(Case(mode, {'hue': 10, 'saturation': 20, 'brightness': 30, 'red': 10,
                                      'green': 20, 'blue': 30, 'kelvin': k}, kind))
    t.run_cases(kc)

    # ---- 4. rgb triples on a grid (+ dyadic random, + out of range)
    steps = 33 if chk.big else 9
    axis = [100.0 * i / (steps - 1) for i in range(steps)]
    triples = [(r, g, b) for r in axis for g in axis for b in axis]
    for _ in range(1500 if quick else 20000):
        triples.append(tuple(rng.randrange(0, 6401) / 64.0 for _ in range(3)))
    for _ in range(300 if quick else 3000):       # nearly grey, nearly black, two equal
        base = rng.randrange(0, 6401) / 64.0
        d = rng.choice([1 / 64.0, 1 / 1024.0, 2.0 ** -20])
        triples.append(tuple(min(100.0, max(0.0, base + rng.choice([-d, 0, d]))) for _ in range(3)))
    t.stats['rgb_triples_in_range'] = len(triples)
    beyond = []
    for _ in range(300 if quick else 3000):
        beyond.append(tuple(rng.choice([-50, -5, -0.5, 0, 0.0, 50, 100, 100.5, 150, 1e6, -1e6,
                                        rng.uniform(-50, 150)]) for _ in range(3)))
    beyond += [(0, -5, -5), (-5, 0, -5), (-5, -5, 0), (-5, -5, -5), (0, 0, -1), (-1, 0, 0),
               (0.0, -0.0, -1e-9), (150, 20, -30), (1e9, 1e9, 1e9)]
    t.stats['rgb_triples_beyond_range'] = len(beyond)
    rc = [Case('rgb', {'red': r, 'green': g, 'blue': b, 'kelvin': 2700,
                       'duration': (i % 97) / 8.0}, 'light') for i, (r, g, b) in enumerate(triples + beyond)]
    t.run_cases(rc)
    for kind in uc.COLOR_KINDS[1:]:
        sub = rc if chk.big else rng.sample(rc[:len(triples)], 500) + rc[len(triples):]
        t.run_cases([Case(c.mode, c.regs, kind) for c in sub])
    # function level: float vs exact for the four conversions that involve colorsys
    fl = triples if chk.big else rng.sample(triples, 1500)
    t.function_level('rgb_to_raw', [(r, g, b, 2700) for r, g, b in fl])
    t.function_level('rgb_to_logical', [(r, g, b, 2700) for r, g, b in fl])
    lg = [(grid[(i * 17) % n], grid[(i * 7 + 3) % n], grid[(i * 13 + 5) % n], 2700)
          for i in range(0, n, 1 if chk.big else 3)]
    t.function_level('logical_to_raw', lg)
    t.function_level('logical_to_rgb', [c for c in lg if 0 <= c[0] <= 360 and 0 <= c[1] <= 100
                                        and 0 <= c[2] <= 100])

    # ---- 5. durations and delays: every kind incl. power, three modes
    durs = [0, 1, 2, 2.5, 0.0005, 0.0015, 0.0025, 0.001, 1e-9, 3600, 86400.5, 4294967.295,
            4294967.2955, 4294967.296, 5e6, 4294967295, 4294967296, 1e12, -1, -0.0004, -2.5,
            10 ** 20]
    durs += near(0.0005) + near(1.0005) + [rng.randrange(0, 2 ** 22) / 1024.0 for _ in range(60)]
    durs += [rng.randrange(0, 5000) for _ in range(40)]
    dc = []
    for mode in uc.MODES:
        for d in durs:
            for kind in uc.KINDS:
                for off in ((False, True) if kind in uc.POWER_KINDS else (False,)):
                    dc.append(Case(mode, {'hue': 1, 'saturation': 2, 'brightness': 3, 'red': 1,
                                          'green': 2, 'blue': 3, 'kelvin': 4, 'duration': d}, kind, off))
    t.stats['duration_values'] = len(durs)
    t.run_cases(dc)
    # delays: `time t wait` asks the clock for t seconds (raw: t ms)
    for mode in uc.MODES:
        lines = ['units ' + mode]
        tv = [d for d in durs if abs(d) < 1e13]
        for d in tv:
            lines.append('time {} wait print 0'.format(uc.num_text(d)))
        events, trace, finished, _ = t.bench.run('\n'.join(lines) + '\n')
        if not finished:
            chk.violation('delay-script-failed:' + mode, 'time/wait script aborted', {'script': '\n'.join(lines)})
            continue
        seq = [e for e in trace if e[0] in ('pause', 'out')]
        pos = 0
        for d in tv:
            pause = None
            if seq[pos][0] == 'pause':
                pause = seq[pos][1]
                pos += 1
            pos += 1
            chk.count()
            want = F(d) if mode != 'raw' else F(d) / 1000
            if (pause is None) != (want <= 0) or (pause is not None and
                                                  abs(F(pause) - want) > abs(want) * F(1, 10 ** 12)):
                chk.violation('delay-inexact:' + mode,
                              '`time {} wait` in {} units asked the clock for {} s'.format(d, mode, pause),
                              {'script': 'units {} time {} wait'.format(mode, uc.num_text(d))})

            def cb(answer, pause=pause, d=d, mode=mode):
                model = answer.split(' ; ')[-1]
                if (model == '-') != (pause is None) or (
                        pause is not None and abs(F(model) - F(pause)) > abs(F(model)) * F(1, 10 ** 12)):
                    chk.disagreement('delay', {'mode': mode, 'time': repr(d)}, repr(pause), model)
            t.requests.append(('u.emit', ['light'] + Case(mode, {'time': d}).driver_regs(), cb))

    # ---- 5b. a duration given in one unit mode and transmitted after one or two unit switches:
    # it is still the time the script named (seconds in logical and rgb units, ms in raw units)
    carried = 0
    for first in uc.MODES:
        for chain in [(b,) for b in uc.MODES if b != first] + \
                [(b, c) for b in uc.MODES for c in uc.MODES if b != first and c != b]:
            for d in (2, 0.25, 1500):
                for cmd, what in (('set "A"', 'set_color'), ('on "A"', 'set_power')):
                    text = 'units {} hue 1 saturation 2 brightness 3 red 1 green 2 blue 3 kelvin 2700 duration {} {} {}\n'.format(
                        first, uc.num_text(d), ' '.join('units ' + m for m in chain), cmd)
                    events, _, finished, _ = t.bench.run(text)
                    chk.count()
                    carried += 1
                    want = F(d) if first == 'raw' else F(d) * 1000
                    got = [f[2] for f in uc.event_fields('light', events or [])]
                    if not finished or len(got) != 1 or abs(F(got[0]) - want) > HALF:
                        chk.violation('duration-changed-by-unit-switch',
                                      '{}: transmitted duration {} ms, the script named {} ms'.format(
                                          text.strip(), got, float(want)),
                                      {'script': text, 'population': uc.POP, 'transmitted': got,
                                       'exact_ms': float(want)})
                    else:
                        chk.nontrivial_case(('carried', first, chain, d, what))
    t.stats['durations_carried_over_unit_switches'] = carried

    # ---- 6. clamp helpers directly
    from bardolph.lib import param_helper as P
    pv = [0, 1, -1, 0.5, 1.5, 2.5, 254.5, 255, 255.5, 256, 65534.5, 65535, 65535.5, 65536,
          4294967294.5, 4294967295, 4294967295.5, 4294967296, 1e20, -1e20, 0.49999999999, 0.5000000001]
    pv += [rng.randrange(0, 2 ** 33) / 2.0 for _ in range(300)]
    for bits, fn, hi in ((8, P.param_8, 255), (16, P.param_16, U16), (32, P.param_32, U32)):
        for v in pv:
            got = fn(v)
            chk.count()
            target = uc.clamp(F(v), 0, hi)
            if type(got) is not int or abs(got - target) > HALF or not 0 <= got <= hi:
                chk.violation('param-helper:{}'.format(bits), 'param_{}({!r}) = {!r}'.format(bits, v, got),
                              {'function': 'param_{}'.format(bits), 'argument': repr(v)})

            def cb(answer, got=got, v=v, bits=bits):
                if answer != str(got):
                    chk.disagreement('u.param', {'bits': bits, 'x': repr(v)}, got, answer)
            t.requests.append(('u.param', [str(bits), uc.frac_text(v)], cb))

    t.flush_requests()

    t.stats['scripts_run'] = t.bench.scripts_run
    t.stats['knife_edge_oracle'] = t.knife_oracle
    t.stats['knife_edge_model'] = t.knife_model
    t.stats['max_float_gap_relative'] = t.max_gap
    t.stats['matrix_early_rounding_present'] = t.matrix_early_rounding
    chk.coverage['distribution'] = t.stats
    chk.coverage['knife_edge_cases'] = t.knife_oracle + t.knife_model
    chk.coverage['max_float_gap'] = t.max_gap
    chk.coverage['exhaustive'] = chk.big
    chk.coverage['rule'] = (
        '{} raw values of each component ({}) through raw->logical->raw (get/set on a device) and '
        'through light, group, location, all, zone and matrix-cell commands; logical values on a '
        'grid of {} over [-50, 500] plus boundary, epsilon-adjacent, tie-adjacent and huge values; '
        'rgb triples on a {}^3 grid plus random dyadic, near-grey and out-of-range triples; '
        'durations through all ten command kinds (set/on/off x light, group, location, all, zone, '
        'matrix) in three unit modes; every value is sent by a real script through ScriptJob; '
        'non-trivial = distinct (mode, kind, register contents)'.format(
            len(raws), 'all' if chk.big else 'every 16th + boundaries',
            '1/64' if chk.big else '1/4 (+600 random multiples of 1/64)', steps))
    chk.sample({'script': 'units logical hue 120 saturation 50 brightness 25.5 duration 2 set "A"',
                'transmitted': [21845, 32768, 16711, 0], 'duration_ms': 2000})
    chk.sample({'raw_logical_raw': 'raw 65535 read back in logical units is hue 360 and re-sent as 0'})
    chk.assumptions += [
        'devices are the simulated lifxlan objects of harness/simnet.py under the real wrappers',
        'IEEE floats are modelled by exact rationals; cases decided by a margin below 1e-6 are '
        'counted as knife-edge and not alarmed',
        'set_power_all_lights receives 1 for on (lifxlan treats 1 and 65535 alike)',
    ]
    if t.matrix_early_rounding:
        chk.assumptions.append(
            'matrix cells: _as_raw_matrix rounds staged logical/rgb cells early (defect of C15); '
            'non-integer logical cells are compared with tolerance 1 raw unit + half a logical '
            'unit, non-integer rgb cells for range only')
    if chk.thorough:
        chk.leanchecker()
    chk.finish()


def replay(chk, path):
    with open(path) as f:
        data = json.load(f)
    rep = data.get('replay', {})
    script = rep.get('script')
    if not script:
        print('replay file has no script:', json.dumps(rep)[:300])
        sys.exit(2)
    bench = uc.Bench()
    events, trace, finished, job = bench.run(script)
    print('script:', script.strip())
    print('finished:', finished)
    for e in events or []:
        print('  ', e)
    for e in trace:
        print('  clock/output:', e)
    sys.exit(0)


if __name__ == '__main__':
    run_check(main)
