#!/usr/bin/env python3
"""Compile each text of a JSON list (file named on the command line, starting at index argv[2])
and print one JSON line per text: the parent (`c06.run_pumps`) watches the clock, because a
regular expression that backtracks exponentially holds the interpreter lock and cannot be
interrupted from a thread of the same process."""
import json
import os
import sys

sys.path.insert(0, os.path.dirname(os.path.abspath(__file__)))
import warnings  # noqa: E402
warnings.simplefilter('ignore')
import env  # noqa: E402
import c06  # noqa: E402


def main():
    texts = json.load(open(sys.argv[1]))
    start = int(sys.argv[2])
    env.configure_basic()
    for i in range(start, len(texts)):
        outcome, detail, job = c06.compile_text(texts[i], in_thread=False)
        print(json.dumps({'i': i, 'outcome': outcome, 'detail': detail[:200],
                          'program_left': job.program is not None}), flush=True)


if __name__ == '__main__':
    main()
