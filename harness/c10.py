#!/usr/bin/env python3
"""C10 — delays run on one time line from script start; time-of-day waits restart it.

The REAL `Clock` (and the real `Machine._wait` through scripts run by `ScriptJob`) runs under
the virtual-time scheduler of vthreads.py: the clock thread and the script thread are real
threads, every source line of clock.py is a switch point, `time.sleep/time.time/datetime.now`
and `threading.Event` are virtual.  All instants are dyadic rationals, so the floats of the
implementation and the `Rat`s of the Lean model agree exactly.
"""
import linecache
import os
import re
import sys
from fractions import Fraction

sys.path.insert(0, os.path.dirname(os.path.abspath(__file__)))
from core import Check, run_check, REPO, InfraError  # noqa: E402
import env  # noqa: E402
import simnet  # noqa: E402
import vthreads as vt  # noqa: E402

TRACE = {'clock.py': None, 'machine.py': {'run', 'stop', '_wait'},
         'script_job.py': {'execute', 'request_stop'}}
POP_MATRIX = {"label": "Candle", "group": "G", "location": "L", "kind": "matrix", "height": 2, "width": 2}
POP = [POP_MATRIX, {"label": "A", "group": "G", "location": "L", "kind": "plain",
        "color": [0, 0, 0, 3500], "power": 0}]
DAY0 = 1000000.0 - (1000000.0 % 86400.0) + 86400.0     # a virtual midnight


def frac(x):
    return Fraction(x)


def rat(x):
    f = Fraction(x)
    return str(f.numerator) if f.denominator == 1 else '{}/{}'.format(f.numerator, f.denominator)


# ---------------------------------------------------------------- specification (independent)
def spec_matches(text, t):
    """does the time of day of instant t (seconds, virtual midnight = multiple of 86400) agree
    with one of the `or` alternatives `H:M` at every non-wildcard position?"""
    tod = int(t % 86400)
    h, m = tod // 3600, (tod % 3600) // 60
    for alt in text.split('|'):
        H, M = alt.split(':')
        hs = '{:02d}'.format(h) if len(H) == 2 else str(h)
        ms = '{:02d}'.format(m)
        ok = (H == '*' or (len(H) == len(hs) and all(a in ('*', b) for a, b in zip(H, hs))))
        ok = ok and (M == '*' or all(a in ('*', b) for a, b in zip(M, ms)))
        if ok:
            return True
    return False


def spec_timeline(start, tick, ops):
    """What the property text says, for a script thread that is never held up and a clock
    ticking every `tick` seconds from `start`: returns the list of (kind, return instant,
    blocks?) per delay / time-of-day wait.  Exact arithmetic."""
    start, tick = frac(start), frac(tick)
    now, base, total = start, start, Fraction(0)
    out = []

    def next_tick_at_or_after(t):
        n = (t - start) / tick
        k = n.numerator // n.denominator
        if start + k * tick < t:
            k += 1
        return start + max(k, 1) * tick

    for op in ops:
        if op[0] == 'work':
            now += frac(op[1])
        elif op[0] == 'pause':
            total += frac(op[1])
            due = base + total
            if now >= due:
                out.append(('p', now, False))
            else:
                # first tick at or after the due instant (the thread waits from `now` on)
                t = next_tick_at_or_after(due)
                out.append(('p', t, True))
                now = t
        elif op[0] == 'until':
            if spec_matches(op[1], now):
                out.append(('u', now, False))
            else:
                t = next_tick_at_or_after(now)
                if t == now:
                    t += tick
                guard = 0
                while not spec_matches(op[1], t):
                    t += tick
                    guard += 1
                    if guard > 200000:
                        return None
                out.append(('u', t, True))
                now = t
            base, total = now, Fraction(0)
    return out


def script_ops(stmts, costs):
    """the delay / wait / command sequence a script denotes (manual: every `wait` and every
    command first waits for the current `time`; `time at` makes that a time-of-day wait; raw
    time values are milliseconds; switching units re-expresses the current value)"""
    ops = []
    time_val = Fraction(0)      # seconds
    pattern = None
    costs = list(costs)

    def wait():
        if pattern is not None:
            ops.append(('until', pattern))
        elif time_val > 0:
            ops.append(('pause', time_val))
    raw = False
    for st in stmts:
        if st[0] == 'time':
            v = frac(st[1])
            time_val = v / 1000 if raw else v
            pattern = None
        elif st[0] == 'at':
            pattern = st[1]
        elif st[0] == 'units':
            raw = st[1] == 'raw'
        elif st[0] == 'wait':
            wait()
        elif st[0] == 'cmd':
            wait()
            ops.append(('work', costs.pop(0) if costs else 0))
        elif st[0] == 'block':
            # a matrix block is ONE command: it waits once; what stands inside it (stages —
            # written there or in a routine called from there — and commands to other lights)
            # belongs to it and adds no delay of its own
            wait()
            for inner in st[1]:
                if inner[0] == 'cmd':
                    ops.append(('work', costs.pop(0) if costs else 0))
    return ops


TIME_FORMS = ('literal', 'braced', 'variable', 'macro', 'call', 'braced-variable')


def script_text(stmts, form='literal'):
    """`form`: how every delay value of the script is written — as a literal, as a braced
    expression, through a variable, a macro, a routine call, or a braced expression over a
    variable (the value, and so the time line, is the same)"""
    out = []
    k = 0
    for st in stmts:
        if st[0] == 'time':
            v = st[1]
            lit = '{}'.format(int(v) if float(v) == int(v) else repr(float(v)))
            k += 1
            out.append({'literal': 'time {v}', 'braced': 'time {{{v}}}',
                        'variable': 'assign tv{k} {v} time tv{k}',
                        'macro': 'define tm{k} {v} time tm{k}',
                        'call': 'time [same_value {v}]',
                        'braced-variable': 'assign tv{k} {v} time {{tv{k} * 1}}'}[form].format(v=lit, k=k))
        elif st[0] == 'at':
            out.append('time at ' + st[1].replace('|', ' or '))
        elif st[0] == 'units':
            out.append('units ' + st[1])
        elif st[0] == 'wait':
            out.append('wait')
        elif st[0] == 'cmd':
            out.append(st[1])
        elif st[0] == 'block':
            inner = ['stage row 0' if i[0] == 'stage' else 'stage_it' if i[0] == 'callstage' else i[1]
                     for i in st[1]]
            out.append('set "Candle" begin ' + ' '.join(inner) + ' end')
    if any(st[0] == 'block' and any(i[0] == 'callstage' for i in st[1]) for st in stmts):
        out.insert(0, 'define stage_it begin stage column 1 end')
    if form == 'call':
        out.insert(0, 'define same_value with q begin return q end')
    return '\n'.join(out) + '\n'


# ---------------------------------------------------------------- running the real code
class Obs:
    def __init__(self):
        self.ops = []        # per clock call: dict
        self.ticks = []      # (instant, woke the script thread?)
        self.events = []     # stamped model events
        self.cmds = []       # (instant, device event)
        self.start = None
        self.unmapped = []
        self.outcome = None
        self.cur = None
        self.mismatch = None


def line_text(frame):
    return linecache.getline(frame.f_code.co_filename, frame.f_lineno).strip()


def make_on_exec(obs, sched, script_thread_name, ctx):
    def on_exec(thread, label, frame):
        fn = label[1]
        if label[0] != 'clock.py':
            return
        txt = line_text(frame)
        now = sched.now
        is_s = thread.name == script_thread_name
        if fn == 'fire':
            if txt == 'self._event.set()':
                obs.events.append('k@' + rat(now))
            elif txt == 'self._event.clear()':
                obs.events.append('c@' + rat(now))
            else:
                obs.unmapped.append((fn, txt))
        elif not is_s:
            return
        elif fn == 'pause_for':
            if txt == 'self._cue_time += delay':
                obs.events.append('P{}@{}'.format(rat(frame.f_locals['delay']), rat(now)))
        elif fn == 'et':
            if txt == 'return time.time() - self._start_time':
                obs.events.append('r@' + rat(now))
            else:
                obs.unmapped.append((fn, txt))
        elif fn == 'wait':
            if re.match(r'self\._event\.wait\(', txt):
                obs.events.append('e@' + rat(now))
        elif fn == 'wait_until':
            if txt == 'hour, minute = Clock._hour_minute()' and not ctx.get('in_until'):
                ctx['in_until'] = True
                obs.events.append('U{}@{}'.format(ctx.get('until_text', '?'), rat(now)))
        elif fn == '_hour_minute':
            if txt == 'now = datetime.now()':
                obs.events.append('r@' + rat(now))
        elif fn == 'now':
            if txt == 'return time.time()' and ctx.get('in_until'):
                ctx['in_until'] = False
                obs.events.append('z@' + rat(now))
    return on_exec


def instrument_clock(clk, obs, sched, sname, ctx):
    """observation points that do not depend on source lines: the clock's Event (ticks, who is
    woken, whether the script thread blocks), the instants at which the script thread reads
    the time, and the clock object's origin / cue after each call"""
    ev = clk._event
    real_set, real_wait = ev.set, ev.wait

    def set_():
        s_waiting = ctx.get('s_blocked', False)
        obs.ticks.append((sched.now, s_waiting))
        if s_waiting and obs.cur is not None:
            obs.cur['wakes'].append(sched.now)
        ctx['s_blocked'] = False
        real_set()

    def wait_(timeout=None):
        if sched.current.name == sname and obs.cur is not None:
            obs.cur['waits'] += 1
            if not ev.flag:
                obs.cur['blocked'] = True
                ctx['s_blocked'] = True
        r = real_wait(timeout)
        if sched.current.name == sname:
            ctx['s_blocked'] = False
        return r
    ev.set, ev.wait = set_, wait_

    def on_time(thread, now):
        if thread is not None and thread.name == sname and obs.cur is not None:
            obs.cur['ret'] = now
    sched.on_time = on_time
    real_pause, real_until = clk.pause_for, clk.wait_until

    def begin(kind, arg):
        obs.cur = {'kind': kind, 'arg': arg, 'call': sched.now, 'ret': None, 'blocked': False,
                   'waits': 0, 'wakes': []}

    def end():
        rec = obs.cur
        obs.cur = None
        rec['back'] = sched.now
        rec['origin'] = clk._start_time
        rec['cue'] = clk._cue_time
        obs.ops.append(rec)

    def pause_for(delay):
        k = len(obs.ops)
        exp = ctx.get('expect')
        if exp is not None and (k >= len(exp) or exp[k][0] != 'pause' or frac(exp[k][1]) != frac(delay)):
            # not the delay the script denotes: no point in sitting it out
            obs.mismatch = (k, exp[k] if k < len(exp) else None, ('pause', delay))
            clk.stop()
            raise RuntimeError('harness: unexpected delay value')
        begin('p', delay)
        try:
            return real_pause(delay)
        finally:
            end()

    def wait_until(pattern):
        begin('u', ctx.get('until_text'))
        try:
            return real_until(pattern)
        finally:
            end()
    clk.pause_for, clk.wait_until = pause_for, wait_until


def namer(target):
    q = getattr(target, '__qualname__', '') or ''
    if q.endswith('Clock.run') or q.endswith('param_wrapper'):
        return 'K'
    return None


def make_policy(case, rng_mod):
    if case['policy'][0] == 'solo':
        return vt.RunToBlock()
    import random
    r = random.Random(case['policy'][1])
    return vt.Random(r, stick=case['policy'][2], p_adv=case['policy'][3])


def run_case(case, modules):
    """runs one case on the real code; returns Obs"""
    clock_mod, settings_mod, TP, ScriptJob = modules
    obs = Obs()
    ctx = {'expect': case.get('expect')}
    settings_mod.Settings._the_config['sleep_time'] = case['tick']
    if case.get('tick_from_file'):
        # the tick length arrives the way a configuration file delivers it (`run.py -c file.ini`,
        # BARDOLPH_INI): through Settings.apply_file, i.e. as text
        import tempfile
        with tempfile.NamedTemporaryFile('w', suffix='.ini', delete=False) as f:
            f.write('[clock]\nsleep_time: {}\n'.format(repr(float(case['tick']))))
        try:
            from_file = settings_mod.using({}).apply_file(f.name)._config['sleep_time']
        finally:
            os.unlink(f.name)
        settings_mod.Settings._the_config['sleep_time'] = from_file
    sched = vt.Sched(policy=make_policy(case, None), t0=case['t0'], trace=TRACE, namer=namer,
                     max_steps=case.get('max_steps', 60000), watchdog_s=60.0)
    sched.repo_root = REPO
    sched.time_drift = case.get('drift', 0.0)
    sched.on_exec = make_on_exec(obs, sched, 'S', ctx)
    undo = vt.install(sched, clock_mod)
    patterns = {}

    def pat(text):
        p = None
        for alt in text.split('|'):
            q = TP.from_string(alt)
            if p is None:
                p = q
            else:
                p.union(q)
        return p

    def root():
        if case['mode'] == 'clock':
            clk = clock_mod.Clock()
            instrument_clock(clk, obs, sched, 'S', ctx)
            clk.start()
            obs.start = clk._start_time

            def script_thread():
                for op in case['ops']:
                    if op[0] == 'work':
                        sched.sleep(op[1])
                    elif op[0] == 'pause':
                        clk.pause_for(op[1])
                    elif op[0] == 'until':
                        ctx['until_text'] = op[1]
                        clk.wait_until(pat(op[1]))
                clk.stop()
            sched.spawn(script_thread, 'S')
        else:
            job = ScriptJob.from_string(case['text'])
            if job.program is None:
                obs.outcome = 'compile-error: ' + str(job.compile_errors)
                return
            clk = job._machine._clock
            instrument_clock(clk, obs, sched, 'S', ctx)
            untils = [st[1] for st in case['stmts'] if st[0] == 'at']
            real_until = clk.wait_until

            def wait_until(p):
                # which source pattern is this?  identify by what it matches
                for text in untils:
                    if all(p.match(h, m) == spec_matches(text, h * 3600 + m * 60)
                           for h in (0, 7, 12, 23) for m in range(60)):
                        ctx['until_text'] = text
                        break
                return real_until(p)
            clk.wait_until = wait_until
            costs = list(case['costs'])
            real_log = case['net'].log

            def log(label, method, args, outcome):
                real_log(label, method, args, outcome)
                if method in ('set_power_all_lights', 'set_color_all_lights', 'set_power',
                              'set_color'):
                    obs.cmds.append((sched.now, method))
                    w = costs.pop(0) if costs else 0
                    if w:
                        sched.sleep(w)
            case['net'].log = log

            def script_thread():
                real_start = clk.start

                def start():
                    real_start()
                    obs.start = clk._start_time
                clk.start = start
                job.execute()
            sched.spawn(script_thread, 'S')
        # no time-out: a run that never ends shows up as 'deadlock' or 'step-limit'
        sched.block(lambda: all(t.state == 'done' for t in sched.threads if t.name != 'main'))
    try:
        out = sched.run(root)
    finally:
        undo()
        if case['mode'] == 'script':
            case['net'].__dict__.pop('log', None)
    if obs.outcome is None:
        obs.outcome = out
    obs.leftover = [n for n in sched.leftover if n != 'main']
    obs.decisions = sched.decisions
    obs.steps = len(sched.decisions)
    s = sched.thread('S')
    obs.s_exc = repr(s.exc) if s is not None and s.exc is not None else None
    obs.s_done = s is not None and s.state == 'done'
    return obs


# ---------------------------------------------------------------- oracle
def check_case(chk, case, obs, spec_ops):
    """the property's (in)equalities on the observed instants.  Returns list of
    (signature, text) — empty when the property holds on this case."""
    bad = []
    solo = case['policy'][0] == 'solo'
    tick = frac(case['tick'])
    if obs.mismatch is not None:
        k, exp, got = obs.mismatch
        bad.append(('raw-not-ms' if case.get('raw') else 'wrong-delay-value',
                    'wait {}: the script asks for {}, the clock was asked for {}'.format(
                        k, 'nothing more' if exp is None else '{} {}'.format(exp[0], exp[1]), got)))
        return bad
    if obs.s_done and not obs.s_exc and obs.leftover and all(n.startswith('K') for n in obs.leftover):
        # the script thread finished; a clock thread that is still ticking is C09's business
        obs.clock_left_running = True
    elif obs.outcome != 'done' or obs.leftover or obs.s_exc:
        bad.append(('delay-never-ends' if obs.outcome in ('step-limit', 'deadlock') else 'run-fails',
                    'run ended with outcome={} leftover={} exception={}'.format(
                        obs.outcome, obs.leftover, obs.s_exc)))
        return bad
    want = [op for op in spec_ops if op[0] in ('pause', 'until')]
    if len(want) != len(obs.ops):
        bad.append(('wrong-number-of-waits',
                    'the script denotes {} delays/waits, the clock was asked for {}'.format(
                        len(want), len(obs.ops))))
        return bad
    if obs.start is None:
        if want:
            bad.append(('clock-never-started',
                        'the script ran through {} delay(s) / wait(s) without ever starting its clock: they '
                        'are not measured from the start of the script'.format(len(want))))
        return bad
    base = frac(obs.start)
    total = Fraction(0)
    exact = spec_timeline(obs.start, case['tick'], spec_ops) if solo else None
    for k, (op, rec) in enumerate(zip(want, obs.ops)):
        r = frac(rec['ret']) if rec['ret'] is not None else frac(rec['back'])
        c = frac(rec['call'])
        if op[0] == 'pause':
            d = frac(op[1])
            if rec['kind'] != 'p' or frac(rec['arg']) != d:
                bad.append(('raw-not-ms' if case.get('raw') else 'wrong-delay-value',
                            'wait {}: the script asks for a delay of {} s, the clock was asked for {} {}'
                            .format(k, d, rec['kind'], rec['arg'])))
                return bad
            total += d
            due = base + total
            if r < due:
                bad.append(('delay-ends-early', 'delay {} returned at {} before base+sum = {}'
                            .format(k, float(r), float(due))))
            if d == 0 and rec['blocked']:
                bad.append(('zero-delay-blocks', 'delay {} of 0 s blocked in Event.wait'.format(k)))
            if c >= due and rec['blocked']:
                bad.append(('behind-schedule-blocks',
                            'delay {} requested at {} when already due ({}) blocked'.format(
                                k, float(c), float(due))))
            # a tick at or after the due instant that found the thread waiting must end the delay
            for w in rec['wakes'][:-1]:
                if frac(w) >= due:
                    bad.append(('tick-after-due-ignored',
                                'delay {}: woken by the tick at {} >= due {} but waited again'.format(
                                    k, float(w), float(due))))
                    break
            if frac(rec['cue']) != total or frac(rec['origin']) != base:
                bad.append(('lateness-accumulated',
                            'after delay {} the clock holds origin {} cue {}; the time line is base {} '
                            'sum {}'.format(k, rec['origin'], rec['cue'], float(base), float(total))))
        else:
            if rec['kind'] != 'u':
                bad.append(('wrong-wait-kind', 'wait {} should be a time-of-day wait'.format(k)))
                return bad
            new_base = frac(rec['origin'])
            lo = frac(rec['wakes'][-1]) if rec['wakes'] else c
            if not (lo <= new_base <= frac(rec['back'])) or frac(rec['cue']) != 0:
                bad.append(('time-at-does-not-restart',
                            'after the time-of-day wait {} (woken {}, back {}) origin = {} cue = {}'
                            .format(k, float(lo), rec['back'], rec['origin'], rec['cue'])))
            if solo and not spec_matches(op[1], r):
                bad.append(('time-at-returns-at-wrong-time',
                            'wait for {} returned at second {} of the day'.format(op[1], float(r % 86400))))
            base, total = new_base if lo <= new_base <= frac(rec['back']) else r, Fraction(0)
        if exact is not None and k < len(exact):
            kind, t, blocks = exact[k]
            if r != t:
                sig = ('raw-not-ms' if case.get('raw') else
                       'not-first-tick-after-due' if op[0] == 'pause' else 'time-at-returns-at-wrong-time')
                bad.append((sig, 'wait {} ({} {}) returned at t0+{} ; first tick at or after the due '
                            'instant is t0+{}'.format(k, op[0], op[1], float(r - frac(obs.start)),
                                                      float(t - frac(obs.start)))))
            elif op[0] == 'pause' and blocks and not (r < base + total + tick):
                bad.append(('more-than-one-tick-late', 'delay {}'.format(k)))
            if bool(rec['blocked']) != blocks and not bad:
                bad.append(('blocks-differently', 'wait {} blocked={} expected {}'.format(
                    k, rec['blocked'], blocks)))
    # commands are never issued before the time line allows (script mode)
    return bad


# ---------------------------------------------------------------- generators
def dy(rng, lo, hi, den):
    """a dyadic rational in [lo, hi] with denominator den"""
    return rng.randint(int(lo * den), int(hi * den)) / den


def hash_mod(idx, m):
    """the number at the end of a case id (`clock-17`) modulo m"""
    digits = re.sub(r'\D', '', str(idx))
    return int(digits or 0) % m


def gen_clock_case(rng, idx):
    tick = rng.choice([0.125, 0.25, 0.25, 0.5, 1.0, 0.375])
    scale = rng.choice([1, 1, 1, 4, 64])        # large delays with large ticks
    tick *= scale
    hh, mm = rng.randrange(24), rng.randrange(60)
    t0 = DAY0 + hh * 3600 + mm * 60 + rng.choice([0, 0, 7.5, 30, 59.5, 12.25])
    ops = []
    n = rng.randint(1, 7)
    if rng.random() < 0.6:
        ops.append(('work', dy(rng, 0, 2 * tick, 16)))     # tick phase
    for i in range(n):
        kind = rng.random()
        if kind < 0.12:
            d = 0.0
        elif kind < 0.75:
            d = dy(rng, 0, 6 * tick, 8)
        else:
            d = dy(rng, 6 * tick, 30 * tick, 8)
        if rng.random() < 0.18:
            # time-of-day wait: a pattern that comes up within a few minutes
            now_min = None
            form = rng.random()
            if form < 0.4:
                text = '*:*{}'.format(rng.randrange(10))
            elif form < 0.6:
                text = '*:{}*'.format(((mm + rng.randint(0, 12)) % 60) // 10)
            elif form < 0.8:
                text = '*:*{}|*:*{}'.format(rng.randrange(10), rng.randrange(10))
            else:
                text = '*:*'
            ops.append(('until', text))
        else:
            ops.append(('pause', d))
        w = rng.random()
        if w < 0.3:
            pass
        elif w < 0.7:
            ops.append(('work', dy(rng, 0, 3 * tick, 16)))
        else:
            ops.append(('work', dy(rng, 3 * tick, 12 * tick, 16)))   # longer than the delay
    has_until = any(o[0] == 'until' for o in ops)
    if has_until and tick < 1.0:
        tick = rng.choice([1.0, 2.0, 7.5, 15.0])
    if any(o[0] == 'until' and re.search(r':\d\*', o[1]) for o in ops) and tick < 7.5:
        tick = rng.choice([7.5, 15.0])
    return {'mode': 'clock', 'tick': tick, 't0': t0, 'ops': ops, 'id': idx,
            'tick_from_file': hash_mod(idx, 3) == 0}


def gen_script_case(rng, idx):
    tick = rng.choice([0.125, 0.25, 0.5, 1.0])
    hh, mm = rng.randrange(24), rng.randrange(60)
    t0 = DAY0 + hh * 3600 + mm * 60 + rng.choice([0, 7.5, 30])
    stmts, costs = [], []
    raw = False
    mode = 'logical'        # seconds in `logical` and `rgb` units, milliseconds only in `raw`
    have_time = False
    has_at = False
    for i in range(rng.randint(2, 8)):
        r = rng.random()
        if r < 0.35 or not have_time:
            if rng.random() < 0.25 and not has_pattern(stmts):
                mode = rng.choice([m for m in ('logical', 'raw', 'rgb') if m != mode])
                raw = mode == 'raw'
                stmts.append(('units', mode))
            if raw:
                v = rng.choice([0, 125, 250, 500, 750, 1500, 2000, 3250, 4000 * rng.randint(1, 3)])
            else:
                v = rng.choice([0, 0.125, 0.25, 0.5, 1, 1.5, 2, 3.75, 5, dy(rng, 0, 8, 8)])
            stmts.append(('time', v))
            have_time = True
        elif r < 0.45 and not raw:
            text = rng.choice(['*:*{}'.format(rng.randrange(10)), '*:*',
                               '*:{}*|*:*{}'.format(((mm + rng.randint(0, 12)) % 60) // 10,
                                                    rng.randrange(10))])
            stmts.append(('at', text))
            has_at = True
            stmts.append(rng.choice([('wait',), ('cmd', 'on all')]))
            if stmts[-1][0] == 'cmd':
                costs.append(dy(rng, 0, 2, 16))
            have_time = False
            continue
        elif r < 0.55 and not has_pattern(stmts):
            mode = rng.choice([m for m in ('logical', 'raw', 'rgb') if m != mode])
            raw = mode == 'raw'
            stmts.append(('units', mode))
            continue
        k = rng.random()
        if k < 0.45:
            stmts.append(('wait',))
        elif k < 0.85:
            stmts.append(('cmd', rng.choice(['on all', 'off all'])))
            costs.append(dy(rng, 0, 6 * tick, 16) if rng.random() < 0.8 else dy(rng, 0, 40 * tick, 16))
        else:
            inner = []
            for _ in range(rng.randint(1, 3)):
                j = rng.random()
                if j < 0.4:
                    inner.append(('stage',))
                elif j < 0.7:
                    inner.append(('callstage',))
                else:
                    inner.append(('cmd', rng.choice(['on "A"', 'off "A"'])))
                    costs.append(dy(rng, 0, 6 * tick, 16))
            stmts.append(('block', inner))
    if has_at and tick < 1.0:
        tick = rng.choice([1.0, 2.0, 7.5])
    return {'mode': 'script', 'tick': tick, 't0': t0, 'stmts': stmts, 'costs': costs,
            'tick_from_file': hash_mod(idx, 3) == 1,
            'text': script_text(stmts, TIME_FORMS[hash_mod(idx, len(TIME_FORMS))]),
            'time_form': TIME_FORMS[hash_mod(idx, len(TIME_FORMS))], 'id': idx, 'raw': any(s == ('units', 'raw') for s in stmts)}


def has_pattern(stmts):
    """does the `time` register currently hold a pattern (units switch would fault: C14 #26)"""
    for st in reversed(stmts):
        if st[0] == 'at':
            return True
        if st[0] == 'time':
            return False
    return False


FIXED_CLOCK = [
    # zero delays at the very start and when exactly on schedule
    {'tick': 0.25, 't0': DAY0 + 3600, 'ops': [('pause', 0.0), ('pause', 0.0), ('pause', 1.0), ('pause', 0.0)]},
    # due instants falling exactly on ticks
    {'tick': 0.5, 't0': DAY0 + 7200, 'ops': [('pause', 1.0), ('pause', 0.5), ('work', 0.5), ('pause', 0.5)]},
    # work longer than the delay, repeatedly: lateness must not accumulate
    {'tick': 0.25, 't0': DAY0, 'ops': [('pause', 1.0), ('work', 3.0), ('pause', 1.0), ('pause', 1.0),
                                       ('pause', 1.0), ('pause', 0.125)]},
    # time of day then delays
    {'tick': 7.5, 't0': DAY0 + 11 * 3600 + 58 * 60 + 7.5,
     'ops': [('pause', 15.0), ('until', '12:00'), ('pause', 15.0), ('work', 40.0), ('pause', 15.0)]},
    {'tick': 15.0, 't0': DAY0 + 23 * 3600 + 59 * 60, 'ops': [('until', '0:0*'), ('pause', 30.0)]},
    # a large delay
    {'tick': 64.0, 't0': DAY0 + 5 * 3600, 'ops': [('pause', 7200.5), ('pause', 0.25)]},
]

FIXED_SCRIPT = [
    ([('time', 1.5), ('wait',), ('cmd', 'on all'), ('time', 0.5), ('wait',)], [2.0]),
    ([('units', 'raw'), ('time', 1500), ('wait',), ('units', 'logical'), ('time', 2), ('wait',)], []),
    ([('time', 1.5), ('units', 'raw'), ('wait',), ('cmd', 'on all')], [0.25]),
    ([('time', 0), ('wait',), ('cmd', 'on all'), ('cmd', 'off all')], [1.0, 0.5]),
    ([('units', 'raw'), ('time', 0), ('wait',), ('time', 250), ('cmd', 'on all')], [0.0]),
    # seconds in rgb units too; every edge between the three modes with a delay pending
    ([('units', 'rgb'), ('time', 1.5), ('wait',), ('cmd', 'on all'), ('cmd', 'off all')], [0.25, 0.0]),
    ([('time', 2), ('units', 'rgb'), ('wait',), ('units', 'raw'), ('wait',), ('units', 'rgb'), ('wait',),
      ('units', 'logical'), ('wait',), ('units', 'raw'), ('wait',), ('units', 'logical'), ('cmd', 'on all')], [0.5]),
    ([('units', 'raw'), ('time', 750), ('units', 'rgb'), ('cmd', 'on all'), ('time', 0.5), ('wait',)], [0.125]),
    # a matrix block is one command on the time line, whatever stands inside it
    ([('time', 1.5), ('block', [('stage',), ('callstage',), ('cmd', 'on "A"'), ('callstage',)]),
      ('cmd', 'off all'), ('block', [('callstage',)]), ('wait',)], [0.25, 0.0]),
    ([('time', 0.5), ('block', [('cmd', 'on "A"'), ('cmd', 'off "A"')]), ('cmd', 'on all')], [0.0, 0.0, 0.125]),
]


def drift_cases(chk, modules, stats):
    """A time-of-day wait decides on what the wall clock SAYS, and the wall clock moves between
    any two readings of it: here every reading advances virtual time by 1/1024 s, and the waits
    start a few readings before a minute or an hour ends.  Oracle: when the wait returns, the
    pattern matches the time of day at some instant of the last few readings — never a
    combination of the hour of one reading and the minute of another."""
    drift = 1.0 / 1024
    texts = []
    for h in (0, 9, 10, 23):
        nxt = (h + 1) % 24
        texts += [(h, '{}:00'.format(h)), (h, '{}:*'.format(h)), (h, '{}:00|12:30'.format(h)),
                  (h, '{}:59'.format(nxt)), (h, '*:00'), (h, '{}:0*'.format(h)), (h, '{}:59|{}:00'.format(nxt, h))]
    n = 0
    for h, text in texts:
        for minute, back in ((59, 1), (59, 2), (59, 3), (29, 1), (29, 2), (0, 1)):
            # the wait starts `back` readings before minute `minute` of hour h ends
            t0 = DAY0 + h * 3600 + minute * 60 + 60 - back * drift
            case = {'mode': 'clock', 'tick': 15.0, 't0': t0, 'ops': [('until', text)], 'policy': ('solo',),
                    'drift': drift, 'max_steps': 6000, 'id': 'drift-{}'.format(n),
                    'expect': [('until', text)]}
            n += 1
            obs = run_case(case, modules)
            chk.count()
            stats['drift_cases'] = stats.get('drift_cases', 0) + 1
            if obs.outcome != 'done' or not obs.ops or obs.ops[0]['ret'] is None:
                if obs.outcome in ('step-limit',):
                    continue        # a wait of many hours at this tick: not decided here
                chk.violation('run-fails', 'time-of-day wait for {} from second {} of the day: outcome {}'.format(
                    text, t0 % 86400, obs.outcome), {k: v for k, v in case.items()})
                continue
            r = obs.ops[0]['ret']
            window = [r - k * drift for k in range(0, 6)]
            if not any(spec_matches(text, w) for w in window):
                tod = r % 86400
                chk.violation('time-at-returns-at-wrong-time',
                              'wait for {} started at {:02d}:{:02d}:{:06.3f} returned at {:02d}:{:02d}:{:06.3f}, '
                              'a minute no listed pattern matches (the clock advances {} s between two '
                              'readings)'.format(text, int(t0 % 86400 // 3600), int(t0 % 3600 // 60), t0 % 60,
                                                 int(tod // 3600), int(tod % 3600 // 60), tod % 60, drift),
                              {k: v for k, v in case.items()})
            else:
                chk.nontrivial_case(('drift', text, minute, back))


# ---------------------------------------------------------------- main
def main():
    chk = Check('C10')
    chk.lean_phase(sections={'Clock', 'TimePattern'})
    rng = chk.rng
    net, ls, trace = simnet.install(POP, settings_overrides={'sleep_time': 0.25})
    from bardolph.lib import clock as clock_mod, settings as settings_mod, injection, i_lib
    from bardolph.lib.time_pattern import TimePattern as TP
    from bardolph.controller.script_job import ScriptJob
    injection.bind(clock_mod.Clock).to(i_lib.Clock)
    modules = (clock_mod, settings_mod, TP, ScriptJob)
    stats = {'clock_cases': 0, 'script_cases': 0, 'solo': 0, 'random_schedules': 0, 'delays': 0,
             'zero_delays': 0, 'behind_schedule': 0, 'time_of_day_waits': 0, 'raw_scripts': 0,
             'steps': 0, 'ticks': 0, 'hold_ups': 0, 'tick_lengths': {}, 'model_rejects': 0}
    requests = []

    n_clock = 260 if not chk.thorough else 2500
    n_script = 120 if not chk.thorough else 1000
    cases = []
    for i, f in enumerate(FIXED_CLOCK):
        c = dict(f, mode='clock', id='fixed-clock-%d' % i)
        cases.append(c)
    for i in range(n_clock):
        cases.append(gen_clock_case(rng, 'clock-%d' % i))
    for i, (stmts, costs) in enumerate(FIXED_SCRIPT):
        cases.append({'mode': 'script', 'tick': 0.25, 't0': DAY0 + 9 * 3600, 'stmts': stmts,
                      'costs': costs, 'text': script_text(stmts), 'id': 'fixed-script-%d' % i,
                      'raw': any(s == ('units', 'raw') for s in stmts)})
    for i in range(n_script):
        cases.append(gen_script_case(rng, 'script-%d' % i))

    for base_case in cases:
        spec_ops = (base_case['ops'] if base_case['mode'] == 'clock'
                    else script_ops(base_case['stmts'], base_case['costs']))
        # bound the number of ticks
        horizon = spec_timeline(base_case['t0'], base_case['tick'], spec_ops)
        if horizon is None:
            continue
        if horizon and (horizon[-1][1] - frac(base_case['t0'])) / frac(base_case['tick']) > 1500:
            stats['skipped_too_long'] = stats.get('skipped_too_long', 0) + 1
            continue
        policies = [('solo',)]
        for k in range(2 if not chk.thorough else 4):
            policies.append(('random', rng.randrange(1 << 30), rng.choice([0.3, 0.6, 0.85]),
                             rng.choice([0.0, 0.02, 0.1])))
        n_ticks = int((horizon[-1][1] - frac(base_case['t0'])) / frac(base_case['tick'])) if horizon else 0
        # a held-up thread can miss its minute: allow for one full period of each pattern
        slack = sum((3600 if re.search(r':\d\*', o[1]) else 600) / base_case['tick']
                    for o in spec_ops if o[0] == 'until')
        for pol in policies:
            case = dict(base_case, policy=pol,
                        max_steps=4000 + 60 * n_ticks + (0 if pol[0] == 'solo' else int(40 * slack)),
                        expect=[o for o in spec_ops if o[0] != 'work'])
            if case['mode'] == 'script':
                case['net'] = net
            obs = run_case(case, modules)
            chk.count()
            solo = pol[0] == 'solo'
            stats['clock_cases' if case['mode'] == 'clock' else 'script_cases'] += 1
            stats['solo' if solo else 'random_schedules'] += 1
            stats['steps'] += obs.steps
            stats['ticks'] += len(obs.ticks)
            stats['hold_ups'] += sum(1 for d in obs.decisions if d == vt.ADVANCE) if not solo else 0
            stats['tick_lengths'][str(case['tick'])] = stats['tick_lengths'].get(str(case['tick']), 0) + 1
            for o in spec_ops:
                if o[0] == 'pause':
                    stats['delays'] += 1
                    stats['zero_delays'] += 1 if o[1] == 0 else 0
                elif o[0] == 'until':
                    stats['time_of_day_waits'] += 1
            stats['behind_schedule'] += sum(1 for r in obs.ops if r['kind'] == 'p' and not r['blocked'])
            stats['raw_scripts'] += 1 if case.get('raw') else 0
            replay = {k: v for k, v in case.items() if k != 'net'}
            replay['schedule'] = obs.decisions if len(obs.decisions) < 4000 else obs.decisions[:4000]
            bad = check_case(chk, case, obs, spec_ops)
            if getattr(obs, 'clock_left_running', False):
                stats['clock_thread_left_running'] = stats.get('clock_thread_left_running', 0) + 1
            for sig, text in bad:
                chk.violation(sig, text, replay)
            if len([o for o in spec_ops if o[0] != 'work']) >= 1:
                chk.nontrivial_case((case['mode'], str(spec_ops), case['tick'], case['t0'], pol[:2]))
            if obs.unmapped:
                chk.disagreement('clk.lines', case['id'], obs.unmapped[:3], 'unmapped source line')
            # correspondence: the same stamped events through the Lean model
            if obs.s_done and obs.start is not None and not bad:
                rets = ','.join('{}:{}:{}'.format(r['kind'], rat(r['ret'] if r['ret'] is not None else r['back']),
                                                  'b' if r['blocked'] else 'n') for r in obs.ops)
                origin = obs.ops[-1]['origin'] if obs.ops else obs.start
                cue = obs.ops[-1]['cue'] if obs.ops else 0.0
                impl = 'ok {} {} idle {}'.format(rat(origin), rat(cue), rets)
                requests.append(('clk.run', [rat(obs.start)] + obs.events, impl, replay))
            if len(chk.coverage['samples']) < 4 and obs.ops:
                chk.sample({'case': case['id'], 'tick': case['tick'], 'policy': pol[0],
                            'ops': [list(o) for o in spec_ops][:6],
                            'returns_after_start': [float(frac(r['ret']) - frac(obs.start))
                                                    for r in obs.ops if r['ret'] is not None][:6]})

    drift_cases(chk, modules, stats)

    # WAIT's choice: the real Machine._wait against the spec and the model
    from bardolph.vm.machine import Machine
    from bardolph.controller.units import UnitMode
    env_trace = []
    wait_cases = []
    for raw in (False, True):
        for v in [0, 0.0, -1, -0.5, 0.125, 1, 1.5, 250, 1500, 2000.0, 86400000, 125]:
            if not raw or v % 125 == 0 or v <= 0:
                wait_cases.append((raw, v))
    for _ in range(100 if not chk.thorough else 1000):
        # raw values are multiples of 125 ms so that value/1000 is a dyadic rational
        if rng.random() < 0.5:
            wait_cases.append((True, 125 * rng.randint(-4, 40000)))
        else:
            wait_cases.append((False, dy(rng, -2, 4000, 8)))
    # seconds in rgb units as in logical ones ("milliseconds only in raw units")
    wait_cases = [(raw, v, False) for raw, v in wait_cases] + \
                 [(False, v, True) for raw, v in wait_cases if not raw]
    env.configure_basic(env_trace)
    for raw, v, rgb in wait_cases:
        m = Machine()
        m.reset()
        m._reg.unit_mode = UnitMode.RAW if raw else (UnitMode.RGB if rgb else UnitMode.LOGICAL)
        m._reg.time = v
        del env_trace[:]
        m._wait()
        got = [t for t in env_trace if t[0] in ('pause', 'wait_until')]
        want_d = (frac(v) / 1000 if raw else frac(v)) if v > 0 else None
        chk.count()
        if want_d is None:
            if got and v < 0:
                chk.violation('negative-delay-reaches-clock',
                              '`time {}` wait called the clock: {}'.format(v, got), {'time': v, 'raw': raw})
            impl = 'nothing' if not got else 'delay ' + rat(got[0][1])
        else:
            if len(got) != 1 or got[0][0] != 'pause' or frac(got[0][1]) != want_d:
                chk.violation('raw-not-ms' if raw else 'wrong-delay-value',
                              'time {} in {} units: the clock was asked for {}, the script denotes {} s'
                              .format(v, 'raw' if raw else ('rgb' if rgb else 'logical'), got, want_d),
                              {'time': v, 'raw': raw, 'rgb': rgb})
            impl = 'delay ' + rat(got[0][1]) if got else 'nothing'
        requests.append(('clk.wait', ['n:' + rat(v), 'raw' if raw else 'logical'], impl,
                         {'time': v, 'raw': raw}))
    from bardolph.lib.time_pattern import TimePattern
    for raw in (False, True):
        m = Machine()
        m.reset()
        m._reg.unit_mode = UnitMode.RAW if raw else UnitMode.LOGICAL
        m._reg.time = TimePattern.from_string('12:00')
        del env_trace[:]
        m._wait()
        got = [t[0] for t in env_trace]
        chk.count()
        if got != ['wait_until']:
            chk.violation('wrong-wait-kind', 'a pattern in `time` did not wait for the time of day',
                          {'raw': raw, 'got': got})
        requests.append(('clk.wait', ['p:12:00', 'raw' if raw else 'logical'], 'until', {'raw': raw}))
    # time of day of an instant
    for _ in range(200):
        t = DAY0 * rng.choice([0, 1]) + dy(rng, 0, 3 * 86400, 8)
        tod = int(t % 86400)
        requests.append(('clk.tod', [rat(t)], '{} {}'.format(tod // 3600, (tod % 3600) // 60), t))

    answers = chk.driver.ask_many([(c, a) for c, a, _, _ in requests])
    n_dis = 0
    for (cmd, args, impl, case), model in zip(requests, answers):
        if impl != model:
            n_dis += 1
            if model.startswith('reject'):
                stats['model_rejects'] += 1
            chk.disagreement(cmd, case if not isinstance(case, dict) else
                             {k: v for k, v in case.items() if k != 'schedule'}, impl[:300], model[:300])
    stats['model_requests'] = len(requests)
    stats['model_disagreements'] = n_dis
    chk.coverage['distribution'] = stats
    chk.coverage['rule'] = (
        'one case = one run of the real Clock (direct calls) or of a script through the real '
        'ScriptJob/Machine/Clock under the virtual-time scheduler, with one scheduling policy '
        '(solo = nobody held up, or a seeded random pre-emption/hold-up policy); non-trivial = at '
        'least one delay or time-of-day wait; distinct by (operations, tick, start, policy seed)')
    chk.assumptions += [
        'thread switches only at source-line boundaries of clock.py / Machine.run,stop,_wait / script_job.py',
        'virtual time: executing code takes no time except the modelled work (sleep in the script '
        'thread, or per device command); all instants are dyadic rationals, so float and Rat agree',
        'the exact-instant check (first tick at or after the due instant, within one tick) is applied to '
        'runs in which no thread is held up; random schedules are checked against never-early, '
        'no-blocking-when-due, tick-after-due-ends-the-delay and the origin/cue equalities',
    ]
    if chk.thorough:
        chk.leanchecker()
    chk.finish()


def replay_main(path):
    """./check C10 --replay FILE: run the recorded case again on the real code"""
    import json
    with open(path) as f:
        rec = json.load(f)
    r = rec['replay']
    if 'mode' not in r:
        print('replay of {}: not a scheduled run ({}); see the file'.format(path, rec.get('signature')))
        sys.exit(0)
    net, ls, trace = simnet.install(POP, settings_overrides={'sleep_time': 0.25})
    from bardolph.lib import clock as clock_mod, settings as settings_mod, injection, i_lib
    from bardolph.lib.time_pattern import TimePattern as TP
    from bardolph.controller.script_job import ScriptJob
    injection.bind(clock_mod.Clock).to(i_lib.Clock)
    case = dict(r)
    case.pop('schedule', None)
    case.pop('expect', None)
    case['policy'] = tuple(case['policy'])
    if case['mode'] == 'clock':
        case['ops'] = [tuple(o) for o in case['ops']]
        spec_ops = case['ops']
    else:
        case['stmts'] = [tuple(x) for x in case['stmts']]
        case['net'] = net
        spec_ops = script_ops(case['stmts'], case['costs'])
    case['expect'] = [o for o in spec_ops if o[0] != 'work']
    obs = run_case(case, (clock_mod, settings_mod, TP, ScriptJob))

    class _Chk:
        pass
    bad = check_case(_Chk(), case, obs, spec_ops)
    print('replay of {}: outcome={} decisions={}'.format(path, obs.outcome, obs.steps))
    for sig, text in bad:
        print('  {}: {}'.format(sig, text))
    if any(sig == rec.get('signature') for sig, _ in bad):
        print('VIOLATION property=C10 replay={} (reproduced)'.format(path))
        sys.exit(1)
    print('not reproduced')
    sys.exit(0)


def guarded():
    try:
        if '--replay' in sys.argv:
            replay_main(sys.argv[sys.argv.index('--replay') + 1])
        main()
    except (InfraError, SystemExit):
        raise
    except vt.Hang as ex:
        raise InfraError('scheduler watchdog: {}'.format(ex))


if __name__ == '__main__':
    run_check(guarded)
