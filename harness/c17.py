#!/usr/bin/env python3
"""C17 — compiles and runs are independent of what was compiled or run before."""
import copy
import os
import sys
import threading

sys.path.insert(0, os.path.dirname(os.path.abspath(__file__)))
from core import Check, run_check  # noqa: E402
import env  # noqa: E402
import progs  # noqa: E402
import runimpl  # noqa: E402
import simnet  # noqa: E402
import vmwire  # noqa: E402

TRUNCATIONS = [
    'repeat 3 begin hue 5',                       # inside a loop
    'define f with a begin hue a',                # inside a routine
    'set "Candle" begin hue 5 stage row 0',       # inside a matrix block
    'if {1 > 0} begin on all',                    # inside an if block
    'repeat all as x begin set x',                # inside an iteration loop
    'hue {1 +',                                   # inside an expression
    'printf "{} {}" 1',                           # missing printf value
    'define g begin repeat 2 begin set "Candle" begin stage row 0',  # all three nested
]
INVALID = ['hue', 'break', 'assign 5 5', 'set', 'xyz 1', 'define f begin end end', 'units metric',
           'time at 25:00', 'repeat 2 with i from 1 hue 5', 'on all off', '{ 5 }', ')',
           # rejected at every stage of a definition, a loop header, an assignment, a macro
           'define fade with level rate level begin hue level end',
           'define fade with level rate begin hue level brightness nosuch end',
           'define fade with level rate', 'define fade with level 5',
           'define speed 5 define speed 6', 'define speed', 'define limit {',
           'assign total', 'assign total {1 +', 'assign total nosuch',
           'repeat with idx from 1', 'repeat with idx from 1 to nosuch begin print idx end',
           'repeat all as lamp with', 'repeat in "a" as lamp with idx from', 'repeat 3 with idx cycle nosuch',
           'define outer begin define inner begin end end',
           'define deep begin ' + 'if {1 > 0} ' * 400 + 'on all end',
           'assign kept 5 define fn with p begin assign loc p end xyz']


# scripts whose loading relocates jumps (a routine defined inside an if / else / repeat body)
RUN_CORPUS = [
    'if {1 > 2} begin define f with a begin print a print a end f 1 end else begin print 7 end print 8',
    'if {2 > 1} begin print 1 end else begin define g begin print 5 print 6 end g end print 9',
    'assign n 0 repeat 3 begin define h with x begin print x print {x + 1} end h n assign n {n + 1} end print n',
    'assign n 0 repeat while {n < 2} begin if {n > 0} begin define k begin print 4 return 3 end println [k] end '
    'assign n {n + 1} end print 0',
    'define outer begin print 1 end if {1 > 0} begin outer define inner begin print 2 end inner end outer',
]


# every register a script can load, USED by the first command and loaded only afterwards: the
# first command of any run has to see the register's initial value, whatever an earlier run of the
# same job left behind
REGISTER_POP = [
    {'label': 'Lamp', 'group': 'G', 'location': 'L', 'kind': 'plain', 'color': [100, 200, 300, 3500],
     'power': 0},
    {'label': 'Strip', 'group': 'G', 'location': 'L', 'kind': 'multizone', 'color': [1, 2, 3, 3500],
     'power': 0, 'zones': [[10 * z, 20, 30, 3500] for z in range(8)]},
    {'label': 'Candle', 'group': 'G', 'location': 'L', 'kind': 'matrix', 'color': [5, 6, 7, 3500],
     'power': 0, 'height': 6, 'width': 5, 'cells': [[c, 2 * c, 3 * c, 3500] for c in range(30)]},
]
REGISTER_CORPUS = [
    'set "Lamp" hue 120 saturation 100 brightness 50 kelvin 2700',
    'set "Lamp" duration 3 time 2',
    'set "Lamp" wait time 4 duration 1.5',
    'set "Lamp" units raw hue 500 saturation 600 brightness 700 kelvin 3000 duration 800 time 900',
    'print hue print saturation print brightness print kelvin print duration print time '
    'units raw hue 9 saturation 8 brightness 7 kelvin 3000 duration 5 time 4',
    'print red print green print blue units rgb red 10 green 20 blue 30 set "Lamp"',
    'set "Candle" row 0 hue 240 saturation 80 brightness 40 kelvin 3500 set default',
    'hue 120 saturation 100 brightness 50 kelvin 2700 set "Candle" row 0 '
    'hue 240 saturation 80 brightness 40 kelvin 3500 set default',
    'hue 120 saturation 100 brightness 50 kelvin 2700 set "Candle" column 1 2 '
    'hue 240 set default set "Candle" row 1 column 0',
    'hue 30 saturation 40 brightness 50 kelvin 2700 set "Candle" '
    'set "Candle" row 1 2 column 3 set default',
    'hue 30 saturation 40 brightness 50 kelvin 2700 set "Strip" set "Strip" zone 1 3',
    'hue 30 saturation 40 brightness 50 kelvin 2700 set "Strip" zone 2 set "Strip" set "Lamp"',
    'hue 30 saturation 40 brightness 50 kelvin 2700 set "Candle" row 2 set "Candle" set "Lamp" '
    'set "Candle" column 4',
    'on "Lamp" set "Lamp" off "Lamp" hue 5 on all',
    'get "Lamp" print hue hue 77 set "Lamp" get "Strip" print hue get "Candle" print hue',
    'define f begin return 5 end print 1 [f] assign v [f] print v',
    'set "Candle" begin stage row 0 hue 200 saturation 50 brightness 60 kelvin 3000 stage row 1 2 '
    'column 1 3 end set default set "Candle" row 5',
]


# … and the same for variables: a global READ on a path on which this run has not assigned it yet
# (the assignment sits in a branch that is not taken, in a later pass of a loop, after the read,
# or in a routine that is called later) — every run sees "nothing" there, whatever an earlier run
# of the same job has left behind
VARIABLE_CORPUS = [
    'if {1 > 2} begin assign seen 1 end print seen assign seen 1 print seen',
    'assign n 0 repeat 2 begin if {n > 0} begin assign late 5 end print n assign n {n + 1} end print late',
    'if {0} begin assign level 75 end printf "{level} {}" 1 assign level 20 printf "{level}"',
    'define setter begin assign g 9 end if {0} begin assign g 1 end print g setter print g',
    'if {0} begin assign b 75 end assign b2 b brightness 30 set "Lamp" assign b 50',
    'if {0} begin assign who "Lamp" end hue 5 set "Strip" assign who "Candle"',
    'define f with p begin assign loc p return loc end if {0} begin assign loc 3 end print [f 4] print loc',
    'if {0} begin assign carry 0 end repeat with i from 1 to 2 begin print carry assign carry i end',
]


def compile_result(parser, text):
    try:
        ok = parser.parse(text)
    except Exception as ex:  # noqa
        return ('raised', type(ex).__name__, str(ex)[:80])
    if ok:
        return ('accept', [vmwire.enc_instr_fixed(i) for i in parser.get_program()])
    return ('reject', parser.get_errors())


DEGENERATE = ['', ' ', '\n', '\n\n  \t\n', '# all commented out', '# one\n# two\n', '  # c', 'wait', 'end',
              'begin end', '#', '\t']


def texts(rng, n):
    out = []
    for _ in range(n):
        k = rng.random()
        if k < 0.08:
            # degenerate texts: nothing at all, white space only, comments only, one token
            out.append(rng.choice(DEGENERATE))
        elif k < 0.55:
            prog, _pop = progs.generate(rng, size=rng.choice([2, 4, 8]), max_depth=3)
            out.append(progs.render(prog))
        elif k < 0.75:
            out.append(rng.choice(TRUNCATIONS))
        elif k < 0.9:
            out.append(rng.choice(INVALID))
        else:
            prog, _pop = progs.generate(rng, size=4, max_depth=3)
            text = progs.render(prog)
            toks = text.split()
            out.append(' '.join(toks[:rng.randrange(1, max(2, len(toks)))]))
    return out


def parse_histories(chk, stats):
    from bardolph.parser.parse import Parser
    rng = chk.rng
    n_hist = 400 if chk.thorough else 60
    for _ in range(n_hist):
        seq = texts(rng, rng.randint(2, 6))
        used = Parser()
        for i, text in enumerate(seq):
            got = compile_result(used, text)
            want = compile_result(Parser(), text)
            chk.count()
            stats['compiles'] += 1
            stats['compile_outcomes'][got[0]] = stats['compile_outcomes'].get(got[0], 0) + 1
            if got != want:
                prev = seq[i - 1] if i else None
                kind = 'after-' + ('accepted' if prev is not None and compile_result(Parser(), prev)[0] == 'accept'
                                   else 'rejected') + '-text'
                chk.violation('compile-depends-on-history:' + kind,
                              'compiling {!r} after {!r} gives {} (fresh compiler: {})'.format(
                                  text[:60], (prev or '')[:60], str(got)[:100], str(want)[:100]),
                              {'history': seq[:i + 1]})
                break
        else:
            chk.nontrivial_case(tuple(seq))
    # every truncation kind immediately followed by a statement that needs clean state, and by
    # uses of every name the earlier text mentioned (as a value, an operand, a routine, an
    # assignment target): nothing the rejected or accepted text declared may be known afterwards
    import re as _re
    words = {'define', 'with', 'begin', 'end', 'hue', 'brightness', 'repeat', 'from', 'to', 'all', 'as',
             'in', 'set', 'on', 'off', 'print', 'assign', 'if', 'cycle', 'stage', 'row', 'units', 'time',
             'at', 'break', 'metric', 'xyz', 'nosuch'}
    for trunc in TRUNCATIONS + INVALID:
        names = [w for w in dict.fromkeys(_re.findall(r'[a-zA-Z_][a-zA-Z0-9_]*', _re.sub(r'"[^"]*"', '', trunc)))
                 if w not in words][:6]
        uses = []
        for nm in names:
            uses += ['hue {}'.format(nm), 'set {}'.format(nm), '{} 1'.format(nm), 'print {{{} + 1}}'.format(nm),
                     'assign {} 1 print {}'.format(nm, nm), 'define {} 7 print {}'.format(nm, nm),
                     'define {} begin print 2 end {}'.format(nm, nm)]
        for follow in ['on all', 'set "A" and "B"', 'hue 5 break', 'define f begin print 1 end f',
                       'stage row 1', 'return 5', 'print 1'] + DEGENERATE[:7] + uses:
            used = Parser()
            compile_result(used, trunc)
            got = compile_result(used, follow)
            want = compile_result(Parser(), follow)
            chk.count()
            stats['compiles'] += 1
            if got != want:
                chk.violation('compile-depends-on-history:after-rejected-text',
                              'compiling {!r} after the rejected {!r} gives {} (fresh: {})'.format(
                                  follow, trunc, str(got)[:100], str(want)[:100]),
                              {'history': [trunc, follow]})


def run_once(job, pop, stop_after=None):
    """execute `job` on a freshly installed network (same population state); optionally ask it
    to stop when the k-th event has been recorded"""
    from bardolph.vm import machine as machine_mod
    trace = []
    net, ls, trace = simnet.install(copy.deepcopy(pop), trace=trace)
    runimpl.stub_random()
    shim = runimpl.LogShim()
    machine_mod.logging = shim
    if stop_after is not None:
        class Stopper(list):
            def append(self, item):
                list.append(self, item)
                if len(self) == stop_after:
                    job.request_stop()
        stopper = Stopper()
        net.timeline = stopper
        # clock and output write to the same list
        from bardolph.lib import i_lib, injection
        injection.bind_instance(env.RecordingClock(stopper)).to(i_lib.Clock)
        injection.bind_instance(env.ListOutput(stopper)).to(i_lib.Output)
        job._machine._clock = injection.provide(i_lib.Clock)
        trace = stopper
    timer = threading.Timer(5.0, job.request_stop)
    timer.daemon = True
    timer.start()
    try:
        job.execute()
    finally:
        timer.cancel()
    fault = [m for m in shim.errors if m.startswith('Machine stopped')]
    return vmwire.impl_events(list(trace)), (fault[0] if fault else None)


def run_histories(chk, stats):
    from bardolph.controller.script_job import ScriptJob
    rng = chk.rng
    n = 500 if chk.thorough else 80
    corpus = [(t, None) for t in RUN_CORPUS] + [(t, REGISTER_POP) for t in REGISTER_CORPUS + VARIABLE_CORPUS]
    for i in range(n + len(corpus)):
        if corpus:
            text, pop = corpus.pop()
            pop = copy.deepcopy(pop) if pop is not None else progs.population(rng)
        else:
            # every third script defines routines inside if / else / repeat bodies: the loader
            # then has jumps to relocate around the routine, the one piece of the compiled program
            # that loading rewrites
            prog, pop = progs.generate(rng, size=8, max_depth=3,
                                       features={'nested_define': i % 3 == 0})
            text = progs.render(prog)
        if 'define' in text and ('begin define' in text or 'else define' in text):
            stats['nested_define_scripts'] = stats.get('nested_define_scripts', 0) + 1
        env.configure_basic()
        simnet.install(copy.deepcopy(pop))
        job = ScriptJob.from_string(text)
        if job.program is None:
            continue
        before = [vmwire.enc_instr_fixed(x) for x in job.program]
        first, fault1 = run_once(job, pop)
        stats['executions'] += 1
        # machine of a NEW job built from the same text: the reference
        ref_job = ScriptJob.from_string(text)
        ref, _ = run_once(ref_job, pop)
        history = ['complete']
        ok = first == ref
        # second complete run on the same job
        again, fault2 = run_once(job, pop)
        stats['executions'] += 1
        history.append('complete')
        ok = ok and again == ref
        # a stopped run followed by a complete one
        if len(ref) >= 2:
            k = rng.randrange(1, len(ref))
            partial, _ = run_once(job, pop, stop_after=k)
            stats['stopped_runs'] += 1
            third, _ = run_once(job, pop)
            stats['executions'] += 2
            history += ['stopped-after-{}-events'.format(k), 'complete']
            if third != ref:
                chk.violation('run-depends-on-history:after-stop',
                              'run after a stopped run differs from a first complete run',
                              {'script': text, 'population': pop, 'history': history,
                               'reference': repr(ref[:6]), 'got': repr(third[:6])})
                ok = False
        if first != ref or again != ref:
            chk.violation('run-depends-on-history:second-run',
                          'second run of the same job differs from the first complete run'
                          if first == ref else 'two fresh jobs of the same text differ',
                          {'script': text, 'population': pop, 'first': repr(first[:8]),
                           'second': repr(again[:8])})
        after = [vmwire.enc_instr_fixed(x) for x in job.program]
        if after != before:
            j = next(idx for idx, (a, b) in enumerate(zip(before, after)) if a != b)
            chk.violation('execution-alters-program',
                          'instruction {} changed from {} to {} by executing the job'.format(
                              j, before[j], after[j]), {'script': text})
            ok = False
        chk.count(3)
        if ok:
            chk.nontrivial_case(text)
    # a faulted run followed by a clean one on the same job; and job-to-job carry-over through
    # shared services (output sink, clock)
    pop = [{'label': 'A', 'kind': 'plain'}]
    cases = [
        ('on all print 1', ''), ('on all print 1', '# all commented out'), ('hue 5 set all', '\n  \n'),
        ('units raw hue 1000 assign x 5 define z 42', ''), ('units rgb red 50 duration 7 time 3 assign y "s"', '# c'),
        ('units raw hue 1000 assign x 5', 'print'), ('hue 77 assign x 5', 'define k 3'),
        ('repeat 2 begin on all', '# nothing'), ('on all print 1', 'wait'),
        ('assign z 0 printf "{} {}" 1 {1 / z}', 'printf "{}" 7 println 8'),
        ('print 1 print 2', 'print 3 println 4'),
        ('units raw hue 5 assign v 9 define k 3', 'print hue print v'),
        ('time at 8:00 or 9:30 wait', 'time 2 wait set "A"'),
        ('repeat all as x begin print x', 'print 5'),
    ]
    for first_text, second_text in cases:
        env.configure_basic()
        simnet.install(copy.deepcopy(pop))
        a = ScriptJob.from_string(first_text)
        enc = lambda job: None if job.program is None else [vmwire.enc_instr_fixed(x) for x in job.program]  # noqa
        a_before, a_errors = enc(a), a.compile_errors
        b = ScriptJob.from_string(second_text)
        # compiling ANOTHER job (b, accepted or rejected) leaves this job's program and messages alone,
        # and this job then runs as it would have run alone
        chk.count()
        if enc(a) != a_before or a.compile_errors != a_errors:
            chk.violation('compile-alters-another-job',
                          'after another job compiled {!r}, the job that had compiled {!r} holds {} (before: {}) '
                          'and reports {!r}'.format(second_text[:60], first_text[:60],
                                                    'no program' if enc(a) is None else '{} instructions'.format(len(enc(a))),
                                                    'no program' if a_before is None else '{} instructions'.format(len(a_before)),
                                                    (a.compile_errors or '').strip()[:80]),
                          {'first': first_text, 'second': second_text})
        elif a.program is not None:
            alone = ScriptJob.from_string(first_text)
            want_a, _ = run_once(alone, pop)
            got_a, _ = run_once(a, pop)
            if got_a != want_a:
                chk.violation('compile-alters-another-job',
                              'a job compiled {!r}, another job then compiled {!r}; run afterwards the first gives {} '
                              'instead of {}'.format(first_text[:60], second_text[:60], got_a[:5], want_a[:5]),
                              {'first': first_text, 'second': second_text})
        if b.program is None:
            continue
        if a.program is not None:
            run_once(a, pop)
        # the same job object re-loaded with the second text, and a separate job
        got_b, _ = run_once(b, pop)
        fresh = ScriptJob.from_string(second_text)
        want_b, _ = run_once(fresh, pop)
        chk.count()
        if got_b != want_b:
            chk.violation('job-to-job-carry-over',
                          '{!r} after {!r} gives {} instead of {}'.format(
                              second_text, first_text, got_b[:5], want_b[:5]),
                          {'first': first_text, 'second': second_text})
        reused = ScriptJob.from_string(first_text)
        if reused.program is not None:
            run_once(reused, pop)
        reused.load_string(second_text)
        got_r, _ = run_once(reused, pop)
        if got_r != want_b:
            chk.violation('run-depends-on-history:reloaded-job',
                          'a job re-loaded with {!r} after running {!r} gives {} instead of {}'.format(
                              second_text, first_text, got_r[:5], want_b[:5]),
                          {'first': first_text, 'second': second_text})
        # … and what the job reports of its machine afterwards (ScriptJob.get_machine_state():
        # registers, unit mode, variables) is what a new job reports after the same text
        if machine_state(reused) != machine_state(fresh):
            a, b = machine_state(reused), machine_state(fresh)
            key = next(k for k in a if a[k] != b.get(k))
            chk.violation('machine-state-carries-over:reloaded-job',
                          'after running {!r} and then {!r} the job reports {} = {!r}; a new job running the '
                          'second text reports {!r}'.format(first_text, second_text, key, a[key], b.get(key)),
                          {'first': first_text, 'second': second_text})


def machine_state(job):
    """registers (unit mode among them) and global variables as the job reports them"""
    st = job.get_machine_state()
    out = {}
    for k, v in sorted(vars(st.reg).items()):
        out['register ' + k.lstrip('_')] = repr(v)
    root = st.call_stack.get_top()
    while getattr(root, 'parent', None) is not None:
        root = root.parent
    for attr in ('vars', 'globals'):
        table = getattr(root, attr, None)
        if isinstance(table, dict):
            for k, v in sorted(table.items()):
                out['variable ' + str(k)] = repr(v)
    return out


def stdout_carry_over(chk, stats):
    """Pending output must not cross from one job to the next, and a job run again after a stop
    must write what its first complete run wrote — with the PRODUCTION output binding
    (`std_out_output.configure()`, the process-wide StdOutOutput) and a stop request at every
    single event of scripts whose `printf` values are computed across delays."""
    import io
    from bardolph.controller.script_job import ScriptJob
    from bardolph.lib import i_lib, injection, std_out_output
    pop = [{'label': 'A', 'kind': 'plain'}]
    scripts = [
        'define slow with x begin time 1 wait time 0 return x end printf "{} {}" 1 [slow 7] print 3 println 4',
        'define slow with x begin time 1 wait time 0 return x end print 5 printf "{} {} {}" [slow 1] 2 [slow 3] print 6',
        'print 1 time 1 wait print 2 on all printf "{}" 3 time 1 wait println 4',
    ]
    follower = 'print "b" println "c" printf "{}" 9'

    class Tee(io.TextIOBase):
        def __init__(self, timeline):
            self.timeline, self.text = timeline, []

        def writable(self):
            return True

        def write(self, s):
            self.text.append(s)
            self.timeline.append(('out', s))
            return len(s)

    def run(job, stop_after=None):
        timeline = []
        simnet.install(copy.deepcopy(pop))
        std_out_output.configure()                      # the production output
        if stop_after is not None:
            class Stopper(list):
                def append(self, item):
                    list.append(self, item)
                    if len(self) == stop_after:
                        job.request_stop()
            timeline = Stopper()
        injection.bind_instance(env.RecordingClock(timeline)).to(i_lib.Clock)
        job._machine._clock = injection.provide(i_lib.Clock)
        tee = Tee(timeline)
        old = sys.stdout
        sys.stdout = tee
        try:
            job.execute()
        finally:
            sys.stdout = old
        return ''.join(tee.text), len(timeline)

    for text in scripts:
        ref_job = ScriptJob.from_string(text)
        reference, n_events = run(ref_job)
        alone, _ = run(ScriptJob.from_string(follower))
        for k in range(1, n_events + 1):
            simnet.install(copy.deepcopy(pop))
            job = ScriptJob.from_string(text)
            run(job, stop_after=k)
            # the same process-wide output object goes on: do NOT reconfigure between the jobs
            nxt = ScriptJob.from_string(follower)
            timeline = []
            tee = Tee(timeline)
            old = sys.stdout
            sys.stdout = tee
            try:
                nxt.execute()
                job.execute()
            finally:
                sys.stdout = old
            got = ''.join(tee.text)
            chk.count()
            stats['stdout_carry_over_cases'] = stats.get('stdout_carry_over_cases', 0) + 1
            if got != alone + reference:
                chk.violation('pending-output-carries-over',
                              'after a run stopped at its event {} the next job and a re-run of the stopped job '
                              'write {!r}; alone they write {!r}'.format(k, got[:80], (alone + reference)[:80]),
                              {'stopped_script': text, 'stopped_after_event': k, 'next_script': follower})
                break
        else:
            chk.nontrivial_case(('carry', text))


def main():
    chk = Check('C17', extra_modules=['Bardolph.Props.C17Frame'])
    chk.lean_phase(sections={'ResetCoverage'})
    env.configure_basic()
    stats = {'compiles': 0, 'compile_outcomes': {}, 'executions': 0, 'stopped_runs': 0}
    parse_histories(chk, stats)
    run_histories(chk, stats)
    stdout_carry_over(chk, stats)
    chk.sample({'compile_history': [TRUNCATIONS[2], 'on all']})
    chk.sample({'run_history': ['complete', 'complete', 'stopped-after-k-events', 'complete']})
    # two scripts at the same time (harness/twoscripts.py): each must compute what it computes alone
    import twoscripts as _cc
    _problems, _n = _cc.isolation_cases(chk.rng, 25 if chk.thorough else 3)
    stats['concurrent_pairs'] = _n
    chk.count(_n)
    for _p in _problems:
        if _p['kind'] in ('expr', 'printf', 'fault'):
            chk.violation('jobs-not-independent:concurrent', _p['what'], _p['replay'])
    chk.coverage['distribution'] = stats
    chk.coverage['rule'] = (
        'sequences of 2-6 compile requests (generated valid scripts, texts truncated inside loop / '
        'routine / matrix / if / expression, invalid texts) on one Parser, each result (accept + '
        'instruction list, or reject + messages) compared with a fresh Parser; every truncation kind '
        'followed by statements that need clean state; jobs executed twice, and stopped at a random '
        'event then executed again, on freshly reset simulated devices, compared with the first '
        'complete run of a fresh job; compiled program compared before/after; job-to-job and '
        'reload carry-over through the shared services; non-trivial = distinct history with all '
        'results equal to the fresh ones')
    chk.assumptions += ['device state is reset by the harness between runs (the property is about '
                        'the compiler and the machine, not about the lights remembering colours)']
    if chk.thorough:
        chk.leanchecker()
    chk.finish()


if __name__ == '__main__':
    run_check(main)
