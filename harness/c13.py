#!/usr/bin/env python3
"""C13 — the light directory stays self-consistent over any discovery/expiry history.

Real code driven: `LifxLanApi.get_lights` + `LightSet.discover/refresh/_garbage_collect`
(on `simnet`), `SortedList`, `VmDiscover`.  Three independent parties are compared:

* the ORACLE: the property as its text states it, evaluated through the public getters
  against a plain record of "who was last seen when, reporting what" kept by this file;
* the Lean MODEL (`Bardolph.LS`) through the driver: every public getter after every step;
* the proved checker `invB`, applied to the directory state read off the implementation.
"""
import bisect
import itertools
import json
import os
import sys

sys.path.insert(0, os.path.dirname(os.path.abspath(__file__)))
from core import Check, run_check, ROOT  # noqa: E402
import env  # noqa: E402,F401
import simnet  # noqa: E402

T0 = 1000


# ---------------------------------------------------------------- canonical text (as Driver/LightSet.lean)
def enc(s):
    return ''.join(c if (c.isascii() and c.isalnum()) else '%{:x}.'.format(ord(c)) for c in s)


def enc_list(xs):
    return ''.join(enc(x) + ',' for x in xs)


def enc_opt(x):
    return '-' if x is None else '+' + enc(x)


def enc_members(l):
    return '-' if l is None else '[' + enc_list(l) + ']'


def fmt_age(a):
    return str(int(a)) if a == int(a) else repr(a)


def enc_light(light):
    return '{}:{}:{}'.format(enc(light.get_group()), enc(light.get_location()),
                             fmt_age(light.get_age()))


def observe(ls, probes):
    """everything the public getters show, in the model driver's format"""
    out = ['N=' + enc_list(ls.get_light_names()),
           ';C=' + str(ls.get_light_count()),
           ';L=' + ''.join(enc(l.get_name()) + ':' + enc_light(l) + ',' for l in ls.get_lights()),
           ';G=' + ''.join(enc(g) + enc_members(ls.get_group_lights(g)) + ','
                           for g in ls.get_group_names()),
           ';P=' + ''.join(enc(g) + enc_members(ls.get_location_lights(g)) + ','
                           for g in ls.get_location_names()),
           ';K={},{}'.format(ls.get_successful_discovers(), ls.get_failed_discovers()),
           ';Q=']
    for p in probes:
        light = ls.get_light(p)
        out.append(('-' if light is None else '+' + enc_light(light)) + '/' +
                   enc_members(ls.get_group_lights(p)) + '/' +
                   enc_members(ls.get_location_lights(p)) + ',')
    return ''.join(out)


def ops_args(ops):
    """operations in the driver's argument format (refresh = discover + expire)"""
    args = []
    for op in ops:
        k = op[0]
        if k == 'D':
            args += ['D', 3 * len(op[1])]
            for n, g, l in op[1]:
                args += [n, g, l]
        elif k == 'F':
            args.append('F')
        elif k == 'A':
            args += ['A', op[1]]
        elif k == 'E':
            args += ['E', op[1]]
        elif k == 'R':
            if op[1] is None:
                args.append('F')
            else:
                args += ops_args([('D', op[1])])
            args += ['E', op[2]]
        else:
            raise ValueError(op)
    return args


def inv_args(ls, now):
    """the implementation's directory state, through its getters, for the proved checker"""
    args = [int(now)]
    names = list(ls.get_light_names())
    args += [len(names)] + names
    lights = ls.get_lights()
    args.append(len(lights))
    for l in lights:
        args += [l.get_name(), l.get_group(), l.get_location(), int(now - l.get_age())]
    for names_of, members_of in ((ls.get_group_names, ls.get_group_lights),
                                 (ls.get_location_names, ls.get_location_lights)):
        keys = list(names_of())
        args.append(len(keys))
        for k in keys:
            m = list(members_of(k) or [])
            args += [k, len(m)] + m
    return args


# ---------------------------------------------------------------- the implementation under the real wrappers
class Impl:
    """one simulated network; a fresh `LightSet` per history"""

    def __init__(self):
        from bardolph.controller import i_controller, light_set
        from bardolph.lib import injection, settings
        self.net, _, _ = simnet.install([], discover=False)
        self._light_set_mod = light_set
        self._i_controller = i_controller
        self._injection = injection
        self._settings = settings
        self.fresh()

    def fresh(self):
        self.ls = self._light_set_mod.LightSet()
        self._injection.bind_instance(self.ls).to(self._i_controller.LightSet)
        self.net.clock.now = float(T0)
        self.net.devices = []
        self.net.vanished = set()
        self.net.faults = simnet.FaultScript()
        self.seen = {}           # the oracle's record: name -> (group, location, time last seen)
        return self.ls

    @property
    def now(self):
        return self.net.clock.now

    def set_population(self, snap):
        self.net.devices = [
            simnet.SimDevice(self.net, {'label': n, 'group': g, 'location': l}) for n, g, l in snap]

    def _expire_setting(self, max_age):
        self._settings.Settings._the_config['light_gc_time'] = max_age

    def _spec_discover(self, snap):
        for n, g, l in snap:
            self.seen[n] = (g, l, self.now)

    def _spec_expire(self, max_age):
        for n in [n for n, (_, _, t) in self.seen.items() if self.now - t > max_age]:
            del self.seen[n]

    def apply(self, op):
        """run one operation on the real code and on the oracle's record; returns None or a
        description of what went wrong in the call itself"""
        k = op[0]
        if k == 'D':
            self.set_population(op[1])
            res = self.ls.discover()
            self._spec_discover(op[1])
            if res is not True:
                return 'discover() returned {!r} on a healthy network'.format(res)
        elif k == 'F':
            if len(op) == 1:         # the LAN-level request fails
                self.net.faults = simnet.FaultScript({('*', 'get_lights'): [True]})
            else:                    # ('F', 'device', i, population): one device does not answer
                self.set_population(op[3])
                victim = self.net.devices[op[2] % len(self.net.devices)]
                self.net.faults = simnet.FaultScript(
                    {(victim.label, 'get_product_features'): [True]})
            res = self.ls.discover()
            self.net.faults = simnet.FaultScript()
            if res is not False:
                return 'discover() returned {!r} although get_lights() failed'.format(res)
        elif k == 'A':
            self.net.clock.now += op[1]
        elif k == 'E':
            self._expire_setting(op[1])
            self.ls._garbage_collect()
            self._spec_expire(op[1])
        elif k == 'R':
            self._expire_setting(op[2])
            if op[1] is None:
                self.net.faults = simnet.FaultScript({('*', 'get_lights'): [True]})
            else:
                self.set_population(op[1])
            self.ls.refresh()
            self.net.faults = simnet.FaultScript()
            if op[1] is not None:
                self._spec_discover(op[1])
            self._spec_expire(op[2])
        else:
            raise ValueError(op)
        return None

    # state copy for the prefix-shared enumeration (private fields are touched only here)
    def save(self):
        ls = self.ls
        return (dict(ls._lights), _copy_sl(ls._light_names),
                {k: _copy_sl(v) for k, v in ls._groups.items()},
                {k: _copy_sl(v) for k, v in ls._locations.items()},
                ls._num_successful_discovers, ls._num_failed_discovers,
                self.net.clock.now, dict(self.seen))

    def restore(self, saved):
        ls = self.ls
        ls._lights = dict(saved[0])
        ls._light_names = _copy_sl(saved[1])
        ls._groups = {k: _copy_sl(v) for k, v in saved[2].items()}
        ls._locations = {k: _copy_sl(v) for k, v in saved[3].items()}
        ls._num_successful_discovers = saved[4]
        ls._num_failed_discovers = saved[5]
        self.net.clock.now = saved[6]
        self.seen = dict(saved[7])


def _copy_sl(sl):
    new = type(sl)()
    list.extend(new, sl)
    return new


# ---------------------------------------------------------------- the oracle (from the property text)
def strictly_sorted(xs):
    return all(xs[i] < xs[i + 1] for i in range(len(xs) - 1))


def nearest_above(xs, x):
    c = [y for y in xs if y > x]
    return min(c) if c else None


def nearest_below(xs, x):
    c = [y for y in xs if y < x]
    return max(c) if c else None


def stepping_problems(sl, probes, what):
    """next/prev/first/last of a SortedList against `nearest remaining name in that direction`"""
    bad = []
    xs = list(sl)
    if sl.first() != (min(xs) if xs else None) or sl.last() != (max(xs) if xs else None):
        bad.append(('first-last', '{}: first/last = {!r}/{!r} of {!r}'.format(
            what, sl.first(), sl.last(), xs)))
    for x in probes:
        got, want = sl.next(x), nearest_above(xs, x)
        if got != want:
            bad.append(('next-not-nearest', '{}: next({!r}) = {!r}, nearest greater of {!r} is {!r}'
                        .format(what, x, got, xs, want)))
        got, want = sl.prev(x), nearest_below(xs, x)
        if got != want:
            bad.append(('prev-not-nearest', '{}: prev({!r}) = {!r}, nearest smaller of {!r} is {!r}'
                        .format(what, x, got, xs, want)))
        if sl.has(x) != (x in xs):
            bad.append(('has-wrong', '{}: has({!r}) = {!r} for {!r}'.format(what, x, sl.has(x), xs)))
    return bad


STEPPING_SIGS = {'first-last', 'next-not-nearest', 'prev-not-nearest', 'has-wrong'}


def directory_problems(ls, seen, now, probes):
    """[(signature, text)] — empty iff the directory satisfies the property's statement"""
    bad = []
    known = sorted(seen)
    names = list(ls.get_light_names())
    if not strictly_sorted(names):
        bad.append(('names-not-sorted-or-duplicated', 'light names {!r}'.format(names)))
    if sorted(set(names)) != known:
        bad.append(('names-differ-from-known-lights',
                    'light names {!r}, known lights {!r}'.format(names, known)))
    if ls.get_light_count() != len(known):
        bad.append(('light-count-wrong', 'count {} for {!r}'.format(ls.get_light_count(), known)))
    listed = sorted(l.get_name() for l in ls.get_lights())
    if listed != known:
        bad.append(('lights-differ-from-known-lights',
                    'get_lights() names {!r}, known {!r}'.format(listed, known)))
    for n in known:
        light = ls.get_light(n)
        g, l, t = seen[n]
        if light is None:
            bad.append(('known-light-missing', 'get_light({!r}) is None'.format(n)))
        elif (light.get_name(), light.get_group(), light.get_location()) != (n, g, l):
            bad.append(('light-not-as-last-reported', 'light {!r} is ({!r},{!r}), last reported ({!r},{!r})'
                        .format(n, light.get_group(), light.get_location(), g, l)))
        elif light.get_age() != now - t:
            bad.append(('age-wrong', 'light {!r} age {} but last seen {} s ago'.format(
                n, light.get_age(), now - t)))
    for p in probes:
        if p not in seen and ls.get_light(p) is not None:
            bad.append(('unknown-light-present', 'get_light({!r}) is not None'.format(p)))
    for what, which, names_of, members_of in (
            ('group', 0, ls.get_group_names, ls.get_group_lights),
            ('location', 1, ls.get_location_names, ls.get_location_lights)):
        want = {}
        for n in known:
            want.setdefault(seen[n][which], []).append(n)
        keys = list(names_of())
        if not strictly_sorted(keys) or keys != sorted(want):
            bad.append((what + '-names-not-the-nonempty-ones',
                        '{} names {!r}, non-empty ones {!r}'.format(what, keys, sorted(want))))
        count = {n: 0 for n in known}
        for k in set(keys) | set(want):
            members = members_of(k)
            if members is None:
                bad.append((what + '-list-missing', '{} {!r} has no member list but members {!r}'
                            .format(what, k, want.get(k))))
                continue
            members = list(members)
            if len(members) == 0:
                bad.append((what + '-list-empty', '{} {!r} is listed with no members'.format(what, k)))
            if not strictly_sorted(members):
                bad.append((what + '-members-not-sorted-or-duplicated',
                            '{} {!r}: {!r}'.format(what, k, members)))
            if members != want.get(k, []):
                bad.append((what + '-members-wrong', '{} {!r}: members {!r}, lights that last reported it {!r}'
                            .format(what, k, members, want.get(k, []))))
            for n in members:
                if n in count:
                    count[n] += 1
        wrong = {n: c for n, c in count.items() if c != 1}
        if wrong:
            bad.append((what + '-membership-not-exactly-one',
                        'number of {} lists per light: {!r}'.format(what, wrong)))
        for p in probes:
            if p not in want and members_of(p) is not None:
                bad.append((what + '-stale', '{} {!r} still listed: {!r}'.format(what, p, members_of(p))))
    return bad


def stepping_all(ls, probes):
    bad = stepping_problems(ls.get_light_names(), probes, 'light names')
    for names_of, members_of, what in ((ls.get_group_names, ls.get_group_lights, 'group'),
                                       (ls.get_location_names, ls.get_location_lights, 'location')):
        keys = names_of()
        bad += stepping_problems(keys, probes, what + ' names')
        for k in keys:
            m = members_of(k)
            if m is not None:
                bad += stepping_problems(m, probes, 'members of {} {!r}'.format(what, k))
    return bad


# ---------------------------------------------------------------- histories
class HistoryRunner:
    def __init__(self, chk, impl):
        self.chk = chk
        self.impl = impl
        self.pending = []     # (request, impl answer, case) for the model
        self.stats = {'states_checked': 0, 'model_requests': 0, 'model_disagreements': 0,
                      'invB_on_impl_false': 0, 'impl_states_given_to_invB': 0}

    def check_state(self, hist, probes, stepping=True, stream='history'):
        """oracle on the real directory + queue the model comparison for this state"""
        chk, impl = self.chk, self.impl
        chk.count()
        self.stats['states_checked'] += 1
        try:
            bad = directory_problems(impl.ls, impl.seen, impl.now, probes)
            if stepping:
                bad += stepping_all(impl.ls, probes)
            obs = observe(impl.ls, probes)
            inv = inv_args(impl.ls, impl.now)
        except Exception as ex:  # noqa
            chk.violation('getter-raises:' + type(ex).__name__,
                          'a public getter raised {!r}'.format(ex), self.replay(hist, probes))
            return False
        # the first complaint about the directory and the first about stepping: the further
        # ones on the same state are consequences of the same defect
        shown = set()
        for sig, text in bad:
            kind = 'stepping' if sig in STEPPING_SIGS else 'directory'
            if kind not in shown:
                shown.add(kind)
                chk.violation(sig, text + (' (+{} further complaints on this state)'.format(
                    len(bad) - 1) if len(bad) > 1 else ''), self.replay(hist, probes))
        self.pending.append((('ls.run', ['last', len(probes)] + list(probes) + ops_args(hist)),
                             obs + ';inv', (stream, list(hist))))
        self.pending.append((('ls.inv', inv), 'true inv', (stream + ':invB', list(hist))))
        if len(self.pending) >= 60000:
            self.flush()
        return not bad

    @staticmethod
    def replay(hist, probes):
        return {'kind': 'history', 'ops': [list(op) for op in hist], 'probes': list(probes),
                'how': 'fresh LightSet on simnet at t=1000; D = discover with this population '
                       '(name, group, location); F = discover while get_lights() raises; '
                       'A = advance the clock; E = _garbage_collect with light_gc_time; '
                       'R = refresh() with population (null = failing) and light_gc_time'}

    def flush(self):
        if not self.pending:
            return
        answers = self.chk.driver.ask_many([r for r, _, _ in self.pending])
        for (req, impl_answer, case), model_answer in zip(self.pending, answers):
            self.stats['model_requests'] += 1
            if req[0] == 'ls.inv':
                self.stats['impl_states_given_to_invB'] += 1
                if not model_answer.startswith('true'):
                    self.stats['invB_on_impl_false'] += 1
                    self.chk.violation(
                        'invB-false-on-implementation-state',
                        'the proved consistency checker rejects the implementation\'s directory: '
                        + model_answer, self.replay(case[1], []))
            elif impl_answer != model_answer:
                self.stats['model_disagreements'] += 1
                self.chk.disagreement(case[0], {'ops': case[1]}, impl_answer, model_answer)
        self.pending = []

    def run_history(self, hist, probes, stream, stepping=True, every_step=True):
        """from scratch on a fresh LightSet; the oracle after every step"""
        impl = self.impl
        impl.fresh()
        done = []
        for op in hist:
            done.append(op)
            try:
                err = impl.apply(op)
            except Exception as ex:  # noqa
                self.chk.violation('operation-raises:' + type(ex).__name__,
                                   '{} raised {!r}'.format(op[0], ex), self.replay(done, probes))
                return False
            if err:
                self.chk.violation('discover-result-wrong', err, self.replay(done, probes))
            if every_step or len(done) == len(hist):
                self.check_state(done, probes, stepping, stream)
        return True


def small_ops():
    """2 names x 2 groups x 2 locations: 25 populations + failed discover + advance + expire"""
    per_name = [None] + [(g, l) for g in ('g', 'h') for l in ('l', 'm')]
    ops = []
    for a in per_name:
        for b in per_name:
            snap = []
            if a is not None:
                snap.append(('a', a[0], a[1]))
            if b is not None:
                snap.append(('b', b[0], b[1]))
            ops.append(('D', snap))
    ops += [('F',), ('A', 1), ('E', 0)]
    assert len(ops) == 28
    return ops


SMALL_PROBES = ['a', 'b', 'g', 'h', 'l', 'm', '', 'aa', 'c']


def exhaustive(runner, depth):
    """all histories of the given length over `small_ops`, depth first, sharing prefixes"""
    chk, impl = runner.chk, runner.impl
    ops = small_ops()
    impl.fresh()
    hist = []
    counts = {'histories': 0, 'expiring': 0}
    sample_leaves = []

    def go(d):
        saved = impl.save()
        for op in ops:
            hist.append(op)
            before = len(impl.seen)
            try:
                err = impl.apply(op)
            except Exception as ex:  # noqa
                chk.violation('operation-raises:' + type(ex).__name__,
                              '{} raised {!r}'.format(op[0], ex), runner.replay(hist, SMALL_PROBES))
                err = None
            if err:
                chk.violation('discover-result-wrong', err, runner.replay(hist, SMALL_PROBES))
            if op[0] == 'E' and len(impl.seen) < before:
                counts['expiring'] += 1
            runner.check_state(hist, SMALL_PROBES, stepping=True, stream='exhaustive')
            chk.nontrivial_case(('x', json.dumps(hist)))
            if d + 1 < depth:
                go(d + 1)
            else:
                counts['histories'] += 1
                if chk.rng.random() < 400.0 / (28 ** depth):
                    sample_leaves.append((list(hist), observe(impl.ls, SMALL_PROBES)))
            hist.pop()
            impl.restore(saved)
    go(0)
    # the state copy used above is validated: a sample of full histories replayed from
    # scratch on a fresh LightSet must end in the same observable state
    for h, obs in sample_leaves:
        impl.fresh()
        for op in h:
            impl.apply(op)
        chk.count()
        got = observe(impl.ls, SMALL_PROBES)
        if got != obs:
            # the directory reached through the harness's state copies differs from the one the same
            # history builds on a new LightSet: something the getters do not show (a cache, say)
            # takes part in the state.  The exploration above can then not be trusted; the history
            # is run once more from scratch with the oracle after every step, and the disagreement
            # is recorded (a violation with this history as replay if the oracle finds one,
            # otherwise "no longer shown to hold").
            impl.fresh()
            hh = []
            for op in h:
                hh.append(op)
                try:
                    impl.apply(op)
                except Exception:  # noqa
                    break
                runner.check_state(hh, SMALL_PROBES, stepping=True, stream='exhaustive-from-scratch')
            chk.disagreement('c13.state-copy', {'history': h}, 'through state copies: ' + repr(obs)[:300],
                             'from scratch: ' + repr(got)[:300])
            break
    counts['replayed_from_scratch'] = len(sample_leaves)
    return counts


NAME_POOL = ['a', 'ab', 'abc', 'b', '', ' ', 'A', 'a b', 'éclair', 'z', '日本', 'a\tb',
             'a,b', 'b%41', '\U0001f4a1', 'á', 'x\ny', '[', 'Z', '0', 'a:b', 'b;', '-']


def random_history(rng, length):
    """4 devices; labels from a 4-name alphabet, 3 groups, 3 locations (drawn per history from
    pools with hostile names); devices get renamed, moved, vanish and come back"""
    names = rng.sample(NAME_POOL, 4)
    groups = rng.sample(NAME_POOL, 3)
    locs = rng.sample(NAME_POOL, 3)
    devs = [[rng.choice(names), rng.choice(groups), rng.choice(locs), rng.random() < 0.8]
            for _ in range(4)]
    if rng.random() < 0.7:           # mostly distinct labels, sometimes two bulbs with one label
        for i, d in enumerate(devs):
            d[0] = names[i]
    hist = []
    for _ in range(length):
        for d in devs:               # the population drifts between operations
            r = rng.random()
            if r < 0.08:
                d[0] = rng.choice(names)
            elif r < 0.2:
                d[1] = rng.choice(groups)
            elif r < 0.32:
                d[2] = rng.choice(locs)
            elif r < 0.45:
                d[3] = not d[3]
        snap = [(d[0], d[1], d[2]) for d in devs if d[3]]
        if rng.random() < 0.3:
            rng.shuffle(snap)
        r = rng.random()
        if r < 0.4:
            hist.append(('D', snap))
        elif r < 0.5:
            if snap and rng.random() < 0.5:
                hist.append(('F', 'device', rng.randrange(4), snap))
            else:
                hist.append(('F',))
        elif r < 0.7:
            hist.append(('A', rng.choice([0, 1, 1, 2, 3, 5, 8, 600])))
        elif r < 0.85:
            hist.append(('E', rng.choice([-1, 0, 1, 2, 3, 5, 8, 13, 1200])))
        else:
            hist.append(('R', None if rng.random() < 0.15 else snap,
                         rng.choice([0, 1, 2, 3, 5, 8, 1200])))
    return hist, names + groups + locs + ['', 'a', 'zz']


# ---------------------------------------------------------------- SortedList
LETTERS = ['a', 'b', 'c', 'd', 'e', 'f']
SL_PROBES = LETTERS + ['', 'a ', 'aa', 'b0', 'c~', 'dd', 'eé', 'g', 'A', '\U0001f4a1']


def sorted_list_streams(chk, SortedList, stats):
    requests = []
    n_lists = 0
    for n in range(0, 6):
        for tup in itertools.combinations_with_replacement(LETTERS, n):
            base = list(tup)
            n_lists += 1
            distinct = len(set(base)) == len(base)
            for x in SL_PROBES:
                chk.count()
                sl = SortedList(list(base))
                what = 'SortedList({!r})'.format(base)
                replay = {'kind': 'sorted_list', 'list': base, 'probe': x}
                try:
                    for sig, text in stepping_problems(sl, [x], what):
                        chk.violation(sig, text, replay)
                    added = SortedList(list(base))
                    added.add(x)
                    removed = SortedList(list(base))
                    removed.remove(x)
                    answer = ' '.join([
                        enc_opt(sl.next(x)), enc_opt(sl.prev(x)), enc_opt(sl.first()),
                        enc_opt(sl.last()), 'true' if sl.has(x) else 'false',
                        str(bisect.bisect_left(sl, x)), str(bisect.bisect_right(sl, x)),
                        enc_list(added), enc_list(removed)])
                except Exception as ex:  # noqa
                    chk.violation('sorted-list-raises:' + type(ex).__name__,
                                  '{} with probe {!r}: {!r}'.format(what, x, ex), replay)
                    continue
                want_added = sorted(base + ([] if x in base else [x]))
                if list(added) != want_added:
                    chk.violation('add-wrong', '{}.add({!r}) = {!r}'.format(what, x, list(added)), replay)
                want_removed = list(base)
                if x in want_removed:
                    want_removed.remove(x)
                if list(removed) != want_removed:
                    chk.violation('remove-wrong', '{}.remove({!r}) = {!r}'.format(what, x, list(removed)),
                                  replay)
                if distinct:
                    chk.nontrivial_case(('sl', tup, x))
                requests.append((('sl.ops', [x, len(base)] + base), answer, ('sl.ops', base, x)))
    stats['sorted_lists'] = n_lists
    stats['sorted_list_probes'] = len(SL_PROBES)
    # SortedList(initial) for unsorted iterables and for a single string
    n_init = 0
    for n in range(0, 5):
        for tup in itertools.product(['b', 'a', 'c', ''], repeat=n):
            n_init += 1
            chk.count()
            sl = SortedList(list(tup))
            if list(sl) != sorted(tup):
                chk.violation('init-not-sorted', 'SortedList({!r}) = {!r}'.format(list(tup), list(sl)),
                              {'kind': 'sorted_list_init', 'initial': list(tup)})
            requests.append((('sl.sorted', [len(tup)] + list(tup)), enc_list(sl), ('sl.sorted', tup)))
    for s in ['', 'abc', 'b a']:
        chk.count()
        sl = SortedList(s)
        if list(sl) != [s]:
            chk.violation('init-from-string', 'SortedList({!r}) = {!r}'.format(s, list(sl)),
                          {'kind': 'sorted_list_init', 'initial': s})
    stats['sorted_list_inits'] = n_init
    return requests


def walk_real(SortedList, base, forward, remove_at, limit):
    """the VM's iteration protocol on a real SortedList; remove_at[i] = values removed after
    the i-th visit (i from 0) and before the following step"""
    sl = SortedList(list(base))
    visited = []
    cur = sl.first() if forward else sl.last()
    while cur is not None:
        visited.append(cur)
        if len(visited) > limit:
            return visited, False
        for v in remove_at.get(len(visited) - 1, ()):
            sl.remove(v)
        cur = sl.next(cur) if forward else sl.prev(cur)
    return visited, True


def iteration_streams(chk, SortedList, stats):
    """all duplicate-free sorted lists x all assignments `element -> the step after which it is
    removed, or never`, both directions"""
    requests = []
    max_len = 5 if chk.thorough else 4
    n = 0
    for k in range(0, max_len + 1):
        for tup in itertools.combinations(LETTERS, k):
            base = list(tup)
            times = [None] + list(range(k))
            for sched in itertools.product(times, repeat=k):
                remove_at = {}
                for v, t in zip(base, sched):
                    if t is not None:
                        remove_at.setdefault(t, []).append(v)
                if k and chk.rng.random() < 0.2:      # also removals of values not in the list
                    remove_at.setdefault(0, []).append('zz')
                for forward in (False, True):
                    n += 1
                    chk.count()
                    replay = {'kind': 'iteration', 'list': base, 'forward': forward,
                              'remove_after_visit': {str(t): v for t, v in remove_at.items()}}
                    try:
                        visited, ended = walk_real(SortedList, base, forward, remove_at, k + 2)
                    except Exception as ex:  # noqa
                        chk.violation('iteration-raises:' + type(ex).__name__, repr(ex), replay)
                        continue
                    problems = iteration_problems(base, forward, dict(zip(base, sched)), visited, ended)
                    for sig, text in problems[:1]:
                        chk.violation(sig, text, replay)
                    if any(t is not None for t in sched):
                        chk.nontrivial_case(('it', tup, sched, forward))
                    batches = []
                    for i in range(k + 1):
                        b = remove_at.get(i, [])
                        batches += [len(b)] + b
                    requests.append((('sl.walk', ['f' if forward else 'b', k + 3, k] + base + batches),
                                     enc_list(visited), ('sl.walk', base, sched, forward)))
    stats['iterations_with_removal'] = n
    stats['iteration_max_len'] = max_len
    return requests


def iteration_problems(base, forward, removed_after, visited, ended):
    """`an iteration in progress visits each remaining light once and terminates`"""
    bad = []
    if not ended:
        bad.append(('iteration-does-not-terminate', 'more visits than elements: {!r}'.format(visited)))
    if len(set(visited)) != len(visited):
        bad.append(('iteration-visits-twice', 'visited {!r}'.format(visited)))
    mono = all((visited[i] < visited[i + 1]) if forward else (visited[i] > visited[i + 1])
               for i in range(len(visited) - 1))
    if not mono:
        bad.append(('iteration-out-of-order', 'visited {!r}'.format(visited)))
    for v in base:
        t = removed_after.get(v)
        if t is None and visited.count(v) != 1:
            bad.append(('iteration-misses-remaining', '{!r} stays in the list but is visited {} times: {!r}'
                        .format(v, visited.count(v), visited)))
    for i, v in enumerate(visited):
        if v not in base:
            bad.append(('iteration-visits-unknown', '{!r} was never in the list'.format(v)))
        else:
            t = removed_after.get(v)
            if t is not None and t < i:
                bad.append(('iteration-visits-removed', '{!r} removed after visit {} but visited as number {}'
                            .format(v, t, i)))
    return bad


# ---------------------------------------------------------------- the VM's discovery instructions
def run_vm_iteration(impl, case):
    """one iteration through the real VmDiscover as the VM's loop code drives it: `disc`/`discm`,
    then `dnext`/`dnextm` from the current name until the result is NULL; after
    `expire_after_visits` visits the clock advances, only `stays` is seen again and everything
    else expires.  Returns ([(signature, text)], visited, whether anything expired mid-way)."""
    from bardolph.vm.call_stack import CallStack
    from bardolph.vm.machine import Registers
    from bardolph.vm.vm_codes import Operand
    from bardolph.vm.vm_discover import VmDiscover
    snap = [tuple(e) for e in case['population']]
    stay = [tuple(e) for e in case['stays']]
    what, container = case['iterate'], case['container']
    forward, gone_after = case['forward'], case['expire_after_visits']
    impl.fresh()
    impl.apply(('D', snap))
    reg = Registers()
    reg.disc_forward = forward
    vm = VmDiscover(CallStack(), reg)
    reg.operand = {'light': Operand.LIGHT, 'group': Operand.GROUP, 'location': Operand.LOCATION,
                   'group-members': Operand.GROUP, 'location-members': Operand.LOCATION}[what]
    which = 1 if what.startswith('group') else 2

    def remaining_now():
        if what == 'light':
            return sorted(impl.seen)
        if what in ('group', 'location'):
            return sorted({v[which - 1] for v in impl.seen.values()})
        return sorted(k for k, v in impl.seen.items() if v[which - 1] == container)
    at_start = remaining_now()
    visited = []
    try:
        if what.endswith('members'):
            vm.discm(container)
        else:
            vm.disc()
        while reg.result is not Operand.NULL:
            visited.append(reg.result)
            if len(visited) > len(at_start) + 2:
                break
            if len(visited) == gone_after:
                impl.apply(('A', 5))
                impl.apply(('R', stay, 2))
            if what.endswith('members'):
                vm.dnextm(container, visited[-1])
            else:
                vm.dnext(visited[-1])
    except Exception as ex:  # noqa
        return ([('vm-iteration-raises:' + type(ex).__name__,
                  'iterating {} ({!r}): {!r}'.format(what, container, ex))], visited, False)
    expired_midway = bool(gone_after) and gone_after <= len(visited)
    remaining = remaining_now() if expired_midway else at_start
    bad = []
    # a second iteration of the same kind by the same machine after the directory has changed
    # (the refresh thread runs between two loops of a long-lived script): it must walk the
    # directory as it is NOW
    if case.get('then') is not None:
        then = [tuple(e) for e in case['then']]
        try:
            impl.apply(('A', 5))
            impl.apply(('R', then, 2))
            now = remaining_now()
            second = []
            if what.endswith('members'):
                vm.discm(container)
            else:
                vm.disc()
            while reg.result is not Operand.NULL and len(second) <= len(now) + 2:
                second.append(reg.result)
                if what.endswith('members'):
                    vm.dnextm(container, second[-1])
                else:
                    vm.dnext(second[-1])
            if sorted(second) != now:
                bad.append(('vm-second-iteration-stale',
                            'after the directory changed, a second iteration over {} visits {!r}; the '
                            'directory now holds {!r}'.format(what, second, now)))
        except Exception as ex:  # noqa
            bad.append(('vm-iteration-raises:' + type(ex).__name__,
                        'second iteration over {} ({!r}): {!r}'.format(what, container, ex)))
    if len(visited) > len(at_start) + 2:
        bad.append(('vm-iteration-does-not-terminate', 'visited {!r}'.format(visited)))
    if len(set(visited)) != len(visited):
        bad.append(('vm-iteration-visits-twice', 'visited {!r}'.format(visited)))
    if expired_midway:
        # "the nearest REMAINING name in that direction": what is visited after the refresh is in
        # the directory as the refresh left it
        for v in visited[gone_after:]:
            if v not in remaining:
                bad.append(('vm-iteration-visits-vanished',
                            'iterating {} {}: after {} visit(s) a refresh left {!r}, yet the next steps '
                            'yielded {!r}'.format(what, 'forward' if forward else 'backward', gone_after,
                                                  remaining, visited[gone_after:])))
                break
    for v in remaining:
        if v in at_start and visited.count(v) != 1:
            bad.append(('vm-iteration-misses-remaining',
                        'iterating {} {}: {!r} remains but the visits were {!r}'.format(
                            what, 'forward' if forward else 'backward', v, visited)))
    return bad, visited, expired_midway and len(stay) < len(snap)


def vm_iteration_streams(chk, impl, stats):
    """`disc`/`dnext`/`discm`/`dnextm` of the real VmDiscover on the real directory, lights
    expiring between steps"""
    rng = chk.rng
    n = 0
    for _ in range(3000 if chk.thorough else 1000):
        names = rng.sample(NAME_POOL, rng.randint(1, 4))
        groups = rng.sample(NAME_POOL, 2)
        locs = rng.sample(NAME_POOL, 2)
        snap = [(nm, rng.choice(groups), rng.choice(locs)) for nm in names]
        stay = [e for e in snap if rng.random() < 0.6]
        what = rng.choice(['light', 'group', 'location', 'group-members', 'location-members'])
        case = {'kind': 'vm_iteration', 'population': snap, 'stays': stay, 'iterate': what,
                'container': snap[0][1 if what.startswith('group') else 2],
                'forward': rng.random() < 0.5, 'expire_after_visits': rng.randint(0, len(names))}
        if rng.random() < 0.5:
            names2 = rng.sample(NAME_POOL, rng.randint(0, 4))
            case['then'] = [(nm, rng.choice(groups + rng.sample(NAME_POOL, 1)),
                             rng.choice(locs + rng.sample(NAME_POOL, 1))) for nm in names2]
        n += 1
        chk.count()
        bad, _, nontrivial = run_vm_iteration(impl, case)
        for sig, text in bad[:1]:
            chk.violation(sig, text, case)
        if nontrivial:
            chk.nontrivial_case(('vm', json.dumps(case, sort_keys=True)))
    stats['vm_iterations'] = n


# ---------------------------------------------------------------- replay of a recorded case
def history_from_json(ops):
    return [tuple([op[0]] + [[tuple(e) for e in a] if isinstance(a, list) else a for a in op[1:]])
            for op in ops]



def replay_file(path):
    with open(path) as f:
        data = json.load(f)
    case = data.get('replay', data)
    chk = Check('C13')
    chk.proof.update({'obligations': 0, 'discharged': 0})
    kind = case.get('kind')
    if kind == 'history':
        impl = Impl()
        runner = HistoryRunner(chk, impl)
        runner.run_history(history_from_json(case['ops']), case.get('probes') or SMALL_PROBES,
                           'replay')
        runner.flush()
    else:
        env.configure_basic()
        from bardolph.lib.sorted_list import SortedList
        if kind == 'sorted_list':
            sl = SortedList(list(case['list']))
            for sig, text in stepping_problems(sl, [case['probe']], 'SortedList'):
                chk.violation(sig, text, case)
        elif kind == 'iteration':
            remove_at = {int(k): v for k, v in case['remove_after_visit'].items()}
            visited, ended = walk_real(SortedList, case['list'], case['forward'], remove_at,
                                       len(case['list']) + 2)
            removed_after = {v: t for t, vs in remove_at.items() for v in vs}
            for sig, text in iteration_problems(case['list'], case['forward'], removed_after,
                                                visited, ended):
                chk.violation(sig, text, case)
        elif kind == 'vm_iteration':
            for sig, text in run_vm_iteration(Impl(), case)[0]:
                chk.violation(sig, text, case)
        elif kind == 'sorted_list_init':
            init = case['initial']
            sl = SortedList(init)
            if list(sl) != ([init] if isinstance(init, str) else sorted(init)):
                chk.violation('init-not-sorted', 'SortedList({!r}) = {!r}'.format(init, list(sl)), case)
        else:
            print('unknown replay kind {!r}'.format(kind))
            sys.exit(2)
    for v in chk.violations:
        print('VIOLATION property=C13 replay={} [{}] {}'.format(path, v['signature'], v['what']))
    if chk.broken:
        print('model differs: {}'.format(chk.coverage.get('first_disagreements')))
    print('replay {}: {}'.format(path, 'violated' if chk.violations else 'held'))
    sys.exit(1 if chk.violations else 0)


# ---------------------------------------------------------------- main
def main():
    if '--replay' in sys.argv:
        replay_file(sys.argv[sys.argv.index('--replay') + 1])
    chk = Check('C13', design_ref='DESIGN.md §6 C13')
    chk.lean_phase(sections={'LightSet'})
    impl = Impl()
    from bardolph.lib.sorted_list import SortedList
    rng = chk.rng
    stats = {}
    runner = HistoryRunner(chk, impl)

    # ---- 0a. the expiry boundary, in fractions of a second: a light unseen for EXACTLY the
    # configured age stays, one unseen for any time longer than that — a quarter of a second
    # longer is longer — goes, with its memberships
    stats['expiry_boundary_cases'] = 0
    for max_age in (20, 300, 1200):
        for extra, goes in ((-0.5, False), (0.0, False), (0.25, True), (0.5, True), (0.75, True), (1.0, True),
                            (1.5, True)):
            impl.fresh()
            impl.apply(('D', [('stays', 'g1', 'l1'), ('porch', 'g2', 'l2')]))
            # an eighth of a second before the expiry a discovery sees the other light again
            impl.net.clock.now += max_age + extra - 0.125
            impl.apply(('D', [('stays', 'g1', 'l1')]))
            impl.net.clock.now += 0.125
            impl._expire_setting(max_age)
            impl.ls._garbage_collect()
            chk.count()
            stats['expiry_boundary_cases'] += 1
            listed = 'porch' in list(impl.ls.get_light_names())
            g2 = 'g2' in list(impl.ls.get_group_names())
            if listed == goes or g2 == goes or ('stays' not in list(impl.ls.get_light_names())):
                chk.violation('expiry-boundary-wrong',
                              'light_gc_time {}: a light unseen for {} s is {} after expiry (group g2 {}); '
                              '"longer than the configured age" means it {}'.format(
                                  max_age, max_age + extra, 'still listed' if listed else 'removed',
                                  'listed' if g2 else 'not listed', 'goes' if goes else 'stays'),
                              {'history': [['D', [['stays', 'g1', 'l1'], ['porch', 'g2', 'l2']]],
                                           ['A', max_age + extra], ['E', max_age]],
                               'note': 'harness/c13.py section 0a'})
            else:
                chk.nontrivial_case(('boundary', max_age, extra))
    impl.fresh()

    # ---- 0. the corpus: minimised past findings, replayed first
    corpus_dir = os.path.join(ROOT, 'corpus', 'C13')
    n_corpus = 0
    for fn in sorted(os.listdir(corpus_dir)) if os.path.isdir(corpus_dir) else []:
        if not fn.endswith('.json'):
            continue
        with open(os.path.join(corpus_dir, fn)) as f:
            case = json.load(f)['replay']
        n_corpus += 1
        chk.count()
        if case['kind'] == 'vm_iteration':
            for sig, text in run_vm_iteration(impl, case)[0][:1]:
                chk.violation(sig, text, case)
        elif case['kind'] == 'history':
            runner.run_history(history_from_json(case['ops']), case['probes'], 'corpus')
    stats['corpus_cases'] = n_corpus

    # ---- 1. exhaustive short histories over the small alphabets
    depth = 4 if chk.thorough else 3
    counts = exhaustive(runner, depth)
    stats['exhaustive_depth'] = depth
    stats['exhaustive_histories'] = counts['histories']
    stats['exhaustive_expiries_removing_a_light'] = counts['expiring']
    stats['exhaustive_replayed_from_scratch'] = counts['replayed_from_scratch']
    chk.sample({'history': [list(op) for op in
                            [('D', [('a', 'g', 'l'), ('b', 'g', 'm')]), ('A', 1),
                             ('D', [('a', 'h', 'l')]), ('E', 0)]],
                'meaning': 'a and b discovered; 1 s later a is seen again in group h; expiry '
                           'with age 0 drops b with its memberships'})

    # ---- 2. random long histories with renames, moves, vanishing, hostile names
    n_hist = 2500 if chk.thorough else 600
    lengths = {}
    for i in range(n_hist):
        length = rng.choice([5, 12, 12, 20, 40])
        hist, probes = random_history(rng, length)
        lengths[length] = lengths.get(length, 0) + 1
        runner.run_history(hist, probes, 'random', stepping=True)
        chk.nontrivial_case(('r', json.dumps(hist)))
        if i == 0:
            chk.sample({'random_history_first_ops': [list(op) for op in hist[:6]]})
    stats['random_histories'] = n_hist
    stats['random_history_lengths'] = {str(k): v for k, v in sorted(lengths.items())}
    runner.flush()
    stats.update(runner.stats)

    # ---- 3. SortedList: every sorted list x every probe; iteration with removals
    requests = sorted_list_streams(chk, SortedList, stats)
    requests += iteration_streams(chk, SortedList, stats)
    answers = chk.driver.ask_many([r for r, _, _ in requests])
    n_dis = 0
    for (req, impl_answer, case), model_answer in zip(requests, answers):
        if impl_answer != model_answer:
            n_dis += 1
            chk.disagreement(req[0], case, impl_answer, model_answer)
    stats['sorted_list_model_requests'] = len(requests)
    stats['sorted_list_model_disagreements'] = n_dis
    chk.sample({'sorted_list': ['a', 'c', 'e'], 'probe': 'c', 'next': 'e', 'prev': 'a',
                'probe_absent': 'd', 'next_absent': 'e', 'prev_absent': 'c'})

    # ---- 4. the VM's iteration instructions on the real directory, with expiry in between
    vm_iteration_streams(chk, impl, stats)

    chk.coverage['distribution'] = stats
    chk.coverage['states'] = stats['states_checked']
    chk.coverage['exhaustive'] = True
    chk.coverage['rule'] = (
        'all histories of length {} over 28 operations (25 populations of 2 names x 2 groups x 2 '
        'locations, failed discover, advance 1 s, expire at age 0), every prefix state checked; {} '
        'random histories of length 5-40 over 4 devices with labels/groups/locations drawn from a '
        'pool with hostile names (renames, moves, vanishing, duplicate labels, refresh, both kinds '
        'of discovery failure); every sorted list over 6 letters up to length 5 x {} probes; every '
        'duplicate-free list up to length {} x every removal schedule x both directions; VM '
        'iterations with expiry in between. Non-trivial = distinct history / (list, probe) / '
        'schedule with a removal; each state is checked by the oracle, compared with the Lean '
        'model and given to the proved checker invB'.format(
            depth, n_hist, len(SL_PROBES), stats['iteration_max_len']))
    chk.assumptions += [
        'times are whole seconds on a virtual clock (Light.get_age reads it); the model uses integers',
        'names are Python str without lone surrogates; Python and Lean both order strings by code point',
        'discovery is atomic: LifxLanApi.get_lights builds every Light before LightSet.discover '
        'changes anything (a failing device makes the whole discovery fail)',
        'populations contain plain lights only (a silent multizone light during discovery is C12, DESIGN §7 #19)',
        'single-threaded: the refresh thread is not run concurrently with an iterating script; '
        'removals happen between the steps of an iteration',
    ]
    if chk.thorough:
        chk.leanchecker()
    chk.finish()


if __name__ == '__main__':
    run_check(main)
