"""Deterministic scheduler with virtual time over the REAL threads of the repository.

Real `threading.Thread`s run one at a time; the baton is handed over explicitly (one real
semaphore per thread, all state changes happen while holding the baton, so the scheduler
itself needs no lock).  Yield points are

* every source line of the traced files/functions (`sys.settrace` line events, installed per
  thread), i.e. every line boundary is a possible switch point;
* every blocking primitive: `Event.wait`, `RLock.acquire`, `Thread.join`, `time.sleep`;
* thread start and thread end.

`threading.Event/Thread/RLock/Lock`, `time.sleep/time`, `datetime.now` are replaced by
cooperative, virtual-time versions (`Sched.threading`, `Sched.time`, `Sched.datetime` are
drop-in objects to be assigned to the module attributes `clock.threading`, `clock.time`,
`clock.datetime`, `job_control.threading`).  A sleeping thread is runnable again when virtual
time has reached its wake-up instant; a blocked thread when its predicate holds (predicates
are re-evaluated at every pick) or its time-out instant is reached.  When nothing is runnable
time jumps to the earliest wake-up instant; a policy may also choose that jump while threads
are runnable (a thread "held up" by the OS).

A schedule is the list of decisions: a thread name, or `ADVANCE` ('T').  It is recorded in
`Sched.decisions` and can be replayed with `Replay`.

Outcomes (`Sched.outcome`):
  'done'        the root function returned; remaining threads were aborted (`leftover`)
  'deadlock'    every live thread is blocked for ever (no sleeper, no time-out): a finding
                about the REAL code under this schedule, replayable
  'step-limit'  more than `max_steps` decisions (the real code does not terminate)
A hang of the harness itself (a real thread that does not come back to the scheduler within
`watchdog_s` real seconds) raises `Hang`; checks turn that into exit 2, never exit 1.
"""
import os
import sys
import threading as _rt

ADVANCE = 'T'


class Hang(Exception):
    """the harness (not the code under test) is stuck: infrastructure failure"""


class ReplayDiverged(Exception):
    pass


class _Abort(BaseException):
    """raised inside virtual threads to unwind them when a run is over"""


class VThread:
    def __init__(self, sched, target=None, args=(), kwargs=None, daemon=None, name=None,
                 traced=True, group=None):
        self.sched = sched
        self.target = target
        self.args = args
        self.kwargs = kwargs or {}
        self.daemon = bool(daemon)
        self.name = name or sched._name_for(target)
        self.traced = traced
        self.state = 'new'        # new | runnable | blocked | done
        self.pred = None          # blocked: runnable again when pred() (None: pure sleep)
        self.wake_at = None       # … or when virtual time reaches this instant
        self.sem = _rt.Semaphore(0)
        self.real = None
        self.exc = None
        self.label = None         # the line this thread is about to execute
        self.steps = 0
        self.ended_at = None

    # -- threading.Thread interface used by the repository
    def start(self):
        s = self.sched
        s._check_abort()
        if self.state != 'new':
            raise RuntimeError('threads can only be started once')
        self.state = 'runnable'
        s.threads.append(self)
        self.real = _rt.Thread(target=self._bootstrap, daemon=True, name='v:' + self.name)
        self.real.start()

    def is_alive(self):
        return self.state in ('runnable', 'blocked')

    def join(self, timeout=None):
        self.sched.block(lambda: self.state == 'done', timeout)

    def getName(self):
        return self.name

    def _bootstrap(self):
        s = self.sched
        self.sem.acquire()
        try:
            if s._aborting:
                return
            if self.traced:
                sys.settrace(s._tracer)
            try:
                self.target(*self.args, **self.kwargs)
            finally:
                sys.settrace(None)
        except _Abort:
            pass
        except BaseException as ex:   # noqa: the real code's exception ends its thread
            self.exc = ex
        finally:
            self.state = 'done'
            self.ended_at = s.now
            if not s._aborting:
                try:
                    s._reschedule(self)
                except _Abort:
                    pass


class VEvent:
    """threading.Event: flag + waiter set; `set` releases every current waiter (they return
    True even if the flag is cleared before they run, as in CPython)"""

    def __init__(self, sched):
        self.sched = sched
        self.flag = False
        self.waiters = []

    def is_set(self):
        return self.flag

    isSet = is_set

    def set(self):
        self.sched._check_abort()
        self.flag = True
        for w in self.waiters:
            w[0] = True
        self.waiters = []

    def clear(self):
        self.sched._check_abort()
        self.flag = False

    def wait(self, timeout=None):
        self.sched._check_abort()
        if self.flag:
            return True
        rec = [False]
        self.waiters.append(rec)
        ok = self.sched.block(lambda: rec[0], timeout)
        if not ok and rec in self.waiters:
            self.waiters.remove(rec)
        return ok


class VRLock:
    def __init__(self, sched, reentrant=True):
        self.sched = sched
        self.owner = None
        self.count = 0
        self.reentrant = reentrant

    def acquire(self, blocking=True, timeout=-1):
        s = self.sched
        s._check_abort()
        me = s.current
        if self.owner is None or (self.reentrant and self.owner is me):
            self.owner = me
            self.count += 1
            return True
        if not blocking:
            return False
        if not s.lock_timeouts:
            timeout = None
        ok = s.block(lambda: self.owner is None, None if timeout is None or timeout < 0 else timeout)
        if ok:
            self.owner = s.current
            self.count = 1
        return ok

    def release(self):
        self.sched._check_abort()
        if self.owner is not self.sched.current and self.reentrant:
            raise RuntimeError('cannot release un-acquired lock')
        self.count -= 1
        if self.count <= 0:
            self.owner = None
            self.count = 0

    def locked(self):
        return self.owner is not None

    __enter__ = acquire

    def __exit__(self, *a):
        self.release()


class _Threading:
    def __init__(self, sched):
        self._s = sched

    def Thread(self, group=None, target=None, name=None, args=(), kwargs=None, daemon=None):
        return VThread(self._s, target=target, args=args, kwargs=kwargs, daemon=daemon, name=name)

    def Event(self):
        return VEvent(self._s)

    def RLock(self):
        return VRLock(self._s, True)

    def Lock(self):
        return VRLock(self._s, False)

    def current_thread(self):
        return self._s.current


class _Time:
    def __init__(self, sched):
        self._s = sched

    def time(self):
        h = self._s.on_time
        if h is not None:
            h(self._s.current, self._s.now)
        t = self._s.now
        self._s.now += getattr(self._s, 'time_drift', 0.0)     # time passes between two readings
        return t

    def sleep(self, secs):
        self._s.sleep(secs)

    def monotonic(self):
        return self._s.now


class _Now:
    def __init__(self, t):
        tod = t % 86400.0
        self.hour = int(tod // 3600)
        self.minute = int((tod % 3600) // 60)
        self.second = int(tod % 60)


class _Datetime:
    """stands in for the class `datetime.datetime` (only `now()` is used by clock.py)"""

    def __init__(self, sched):
        self._s = sched

    def now(self):
        h = self._s.on_time
        if h is not None:
            h(self._s.current, self._s.now)
        t = self._s.now
        self._s.now += getattr(self._s, 'time_drift', 0.0)     # time passes between two readings
        return _Now(t)


# ------------------------------------------------------------------------------ policies
class RunToBlock:
    """no pre-emption: the current thread runs until it blocks or ends; then the runnable
    thread that was started first; time advances only when nothing is runnable.  `max_run`
    is a fairness valve: after that many consecutive decisions for one thread while others
    are runnable, the next runnable thread (by creation order) gets its turn."""

    def __init__(self, max_run=None):
        self.max_run = max_run
        self.last = None
        self.streak = 0

    def __call__(self, sched, runnable, can_advance):
        cur = sched.current
        if cur in runnable:
            if self.max_run is not None and len(runnable) > 1:
                self.streak = self.streak + 1 if cur is self.last else 1
                self.last = cur
                if self.streak > self.max_run:
                    self.streak = 0
                    order = sched.threads
                    i = order.index(cur)
                    for k in range(1, len(order) + 1):
                        t = order[(i + k) % len(order)]
                        if t in runnable and t is not cur:
                            self.last = t
                            return t
            return cur
        return runnable[0]


class RoundRobin:
    """switch to the next runnable thread (by creation order) at every decision"""

    def __call__(self, sched, runnable, can_advance):
        order = sched.threads
        i = order.index(sched.current) if sched.current in order else -1
        for k in range(1, len(order) + 1):
            t = order[(i + k) % len(order)]
            if t in runnable:
                return t
        return runnable[0]


class Random:
    """random pre-emption; `stick` = probability of staying with the current thread,
    `p_adv` = probability of letting time pass although threads are runnable"""

    def __init__(self, rng, stick=0.6, p_adv=0.05, never=()):
        self.rng = rng
        self.stick = stick
        self.p_adv = p_adv
        self.never = set(never)

    def __call__(self, sched, runnable, can_advance):
        cand = [t for t in runnable if t.name not in self.never] or runnable
        if can_advance and self.rng.random() < self.p_adv:
            return ADVANCE
        if sched.current in cand and self.rng.random() < self.stick:
            return sched.current
        return self.rng.choice(cand)


class Replay:
    """replays a recorded decision list; after its end `then` decides (default RunToBlock).
    A decision that cannot be taken raises ReplayDiverged unless `lenient`."""

    def __init__(self, decisions, then=None, lenient=False):
        self.decisions = list(decisions)
        self.i = 0
        self.then = then or RunToBlock()
        self.lenient = lenient
        self.diverged_at = None

    def __call__(self, sched, runnable, can_advance):
        while self.i < len(self.decisions):
            d = self.decisions[self.i]
            self.i += 1
            if d == ADVANCE:
                if can_advance:
                    return ADVANCE
            else:
                for t in runnable:
                    if t.name == d:
                        return t
            if self.diverged_at is None:
                self.diverged_at = self.i - 1
            if not self.lenient:
                raise ReplayDiverged('decision {} ({}) not possible; runnable={}'.format(
                    self.i - 1, d, [t.name for t in runnable]))
        return self.then(sched, runnable, can_advance)


class Inject:
    """`base` decides, except that the threads named in `hold` are not chosen before decision
    number `at` (unless nothing else can run and time cannot advance), and from then on the
    held thread is preferred for `burst` of its own steps (None: until it ends)."""

    def __init__(self, base, hold, at, burst=None):
        self.base = base
        self.hold = hold
        self.at = at
        self.burst = burst
        self.given = 0

    def __call__(self, sched, runnable, can_advance):
        n = len(sched.decisions)
        held = [t for t in runnable if t.name == self.hold]
        others = [t for t in runnable if t.name != self.hold]
        if held and n >= self.at and (self.burst is None or self.given < self.burst):
            self.given += 1
            return held[0]
        if held and n < self.at:
            if others:
                return self.base(sched, others, can_advance)
            if can_advance:
                return ADVANCE
            self.given += 1
            return held[0]
        return self.base(sched, runnable, can_advance)


class Inject2:
    """like Inject with several windows [(at, burst)…]: the held thread may run only from
    decision `at` on, for `burst` of its own steps (None: until it ends); then it is held
    again until the next window opens"""

    def __init__(self, base, hold, windows):
        self.base = base
        self.hold = hold
        self.windows = list(windows)
        self.w = 0
        self.given = 0

    def __call__(self, sched, runnable, can_advance):
        held = [t for t in runnable if t.name == self.hold]
        if not held:
            return self.base(sched, runnable, can_advance)
        n = len(sched.decisions)
        while self.w < len(self.windows):
            at, burst = self.windows[self.w]
            if n < at:
                break
            if burst is None or self.given < burst:
                self.given += 1
                return held[0]
            self.w += 1
            self.given = 0
        others = [t for t in runnable if t.name != self.hold]
        if others:
            return self.base(sched, others, can_advance)
        if can_advance:
            return ADVANCE
        return held[0]


class ThreeWay:
    """three threads in one exact order: `base` decides among the others until decision `at`; then
    the held thread runs `burst` of its own steps; then time is let pass once (if the thread
    `second` is asleep) and `second` runs until it blocks or ends; then the held thread runs to its
    end; then `base` decides.  (A stop request cut in two by a clock tick.)"""

    def __init__(self, base, hold, at, burst, second):
        self.base = base
        self.hold = hold
        self.at = at
        self.burst = burst
        self.second = second
        self.given = 0
        self.phase = 0
        self.advanced = 0
        self.second_ran = False

    def __call__(self, sched, runnable, can_advance):
        held = [t for t in runnable if t.name == self.hold]
        others = [t for t in runnable if t.name != self.hold]
        n = len(sched.decisions)
        if self.phase == 0:
            if n < self.at or not held:
                if others:
                    return self.base(sched, others, can_advance)
                if can_advance:
                    return ADVANCE
                return held[0]
            self.phase = 1
        if self.phase == 1:
            if held and self.given < self.burst:
                self.given += 1
                return held[0]
            self.phase = 2
        if self.phase == 2:
            sec = [t for t in runnable if t.name.startswith(self.second)]
            if sec:
                self.second_ran = True
                return sec[0]
            if not self.second_ran and self.advanced < 6 and can_advance:
                self.advanced += 1          # other sleepers may be due first
                return ADVANCE
            self.phase = 3
        if self.phase == 3:
            if held:
                return held[0]
            self.phase = 4
        return self.base(sched, runnable, can_advance)


# ------------------------------------------------------------------------------ scheduler
class Sched:
    def __init__(self, policy=None, t0=1000000.0, trace=None, namer=None, max_steps=20000,
                 max_time=None, watchdog_s=60.0, on_exec=None):
        """trace: {file basename: None | set of function names} — the code whose line
        boundaries are switch points.  namer(target) -> thread name prefix.
        on_exec(thread, label, frame): called (holding the baton) when a thread is about to execute
        the line `label` = (file, function, line number)."""
        self.policy = policy or RunToBlock()
        self.now = float(t0)
        self.t0 = float(t0)
        self.trace = trace or {}
        self.namer = namer
        self.max_steps = max_steps
        self.max_time = max_time
        self.watchdog_s = watchdog_s
        self.on_exec = on_exec
        self.on_time = None       # on_time(thread, now): a thread reads the (virtual) clock
        self.lock_timeouts = True  # False: `acquire(timeout=…)` waits as long as it takes
        self.threads = []
        self.current = None
        self.decisions = []
        self.exec_log = []        # (thread name, label) in global execution order
        self.outcome = None
        self.leftover = []
        self.deadlocked = []
        self.error = None
        self._aborting = False
        self._done = _rt.Event()
        self._names = {}
        self._code_cache = {}
        self.threading = _Threading(self)
        self.time = _Time(self)
        self.datetime = _Datetime(self)

    # -- naming
    def _name_for(self, target):
        prefix = None
        if self.namer is not None:
            prefix = self.namer(target)
        if prefix is None:
            prefix = getattr(target, '__qualname__', None) or 'thread'
        n = self._names.get(prefix, 0) + 1
        self._names[prefix] = n
        return '{}{}'.format(prefix, n)

    def thread(self, name):
        for t in self.threads:
            if t.name == name:
                return t
        return None

    # -- tracing
    def _wanted(self, code):
        w = self._code_cache.get(code)
        if w is None:
            fns = self.trace.get(os.path.basename(code.co_filename), False)
            if fns is False:
                w = False
            elif fns is None:
                w = True
            else:
                w = code.co_name in fns
            if w and not self._in_repo(code.co_filename):
                w = False
            self._code_cache[code] = w
        return w

    repo_root = None

    def _in_repo(self, filename):
        return self.repo_root is None or os.path.abspath(filename).startswith(self.repo_root)

    def _tracer(self, frame, event, arg):
        if event == 'call' and self._wanted(frame.f_code):
            return self._local
        return None

    def _local(self, frame, event, arg):
        if event == 'line':
            code = frame.f_code
            self._yield((os.path.basename(code.co_filename), code.co_name, frame.f_lineno), frame)
        return self._local

    def _yield(self, label, frame=None):
        me = self.current
        if self._aborting:
            raise _Abort()
        me.label = label
        self._reschedule(me)
        me.label = None
        me.steps += 1
        self.exec_log.append((me.name, label))
        if self.on_exec is not None:
            self.on_exec(me, label, frame)

    def yield_here(self, label):
        """explicit switch point for harness code running in a virtual thread"""
        self._yield(('<harness>', '', label))

    # -- the baton
    def _check_abort(self):
        if self._aborting:
            raise _Abort()

    def _eligible(self, t):
        if t.state == 'runnable':
            return True
        if t.state == 'blocked':
            if t.pred is not None and t.pred():
                return True
            if t.wake_at is not None and t.wake_at <= self.now:
                return True
        return False

    def _pick(self):
        while True:
            live = [t for t in self.threads if t.state in ('runnable', 'blocked')]
            if not live:
                return None
            runnable = [t for t in live if self._eligible(t)]
            wakes = [t.wake_at for t in live if t.wake_at is not None and t not in runnable]
            can_adv = bool(wakes)
            if not runnable and not can_adv:
                self.deadlocked = [(t.name, t.label) for t in live]
                self._finish('deadlock')
                return None
            if len(self.decisions) >= self.max_steps or (
                    self.max_time is not None and self.now - self.t0 > self.max_time):
                self._finish('step-limit')
                return None
            if not runnable:
                choice = ADVANCE
            else:
                choice = self.policy(self, runnable, can_adv)
            if choice == ADVANCE:
                if not can_adv:
                    raise ReplayDiverged('cannot advance time')
                self.now = min(wakes)
                self.decisions.append(ADVANCE)
                continue
            self.decisions.append(choice.name)
            return choice

    def _reschedule(self, me):
        """called by the running thread at a decision point, its state already updated"""
        try:
            nxt = self._pick()
        except _Abort:
            raise
        except BaseException as ex:   # noqa: a failing policy must not wedge the run
            self.error = ex
            self._finish('error')
            nxt = None
        if nxt is None:
            if not self._aborting:
                self._finish('done')
            if me.state != 'done':
                raise _Abort()
            return
        if nxt is me:
            self._resume(me)
            return
        self.current = nxt
        nxt.sem.release()
        if me.state != 'done':
            me.sem.acquire()
            if self._aborting:
                raise _Abort()
            self._resume(me)

    def _resume(self, t):
        if t.state == 'blocked':
            t.result = bool(t.pred is not None and t.pred())
            t.state = 'runnable'
            t.pred = None
            t.wake_at = None

    def block(self, pred, timeout=None):
        """block the current thread until pred() (True) or the time-out elapses (False)"""
        self._check_abort()
        me = self.current
        if pred is not None and pred():
            return True
        me.state = 'blocked'
        me.pred = pred
        me.wake_at = None if timeout is None else self.now + max(0.0, float(timeout))
        me.result = False
        self._reschedule(me)
        return me.result

    def sleep(self, secs):
        self._check_abort()
        if secs is None or secs <= 0:
            return
        self.block(None, secs)

    # -- running
    def _finish(self, outcome):
        if self.outcome is None:
            self.outcome = outcome
        self.leftover = [t.name for t in self.threads if t.state in ('runnable', 'blocked')]
        self._aborting = True
        self._done.set()

    def spawn(self, target, name, args=(), traced=True):
        t = VThread(self, target=target, args=args, name=name, traced=traced)
        t.start()
        return t

    def run(self, root_fn, name='main'):
        """run root_fn in a virtual thread (not traced); returns when the run is over"""
        def root():
            try:
                root_fn()
            finally:
                if not self._aborting:
                    self.root_returned = True
                    self._finish('done')
        self.root_returned = False
        t = VThread(self, target=root, name=name, traced=False)
        t.state = 'runnable'
        self.threads.append(t)
        t.real = _rt.Thread(target=t._bootstrap, daemon=True, name='v:' + name)
        t.real.start()
        self.current = t
        self.decisions.append(t.name)
        t.sem.release()
        if not self._done.wait(self.watchdog_s):
            self._aborting = True
            for th in self.threads:
                th.sem.release()
            raise Hang('virtual-thread run did not come back within {} s (real); last '
                       'decisions {}'.format(self.watchdog_s, self.decisions[-10:]))
        # unwind whatever is left
        for th in self.threads:
            if th.real is not None and th.real.is_alive():
                th.sem.release()
        for th in self.threads:
            if th.real is not None:
                th.real.join(5.0)
                if th.real.is_alive():
                    raise Hang('thread {} did not unwind'.format(th.name))
        if self.outcome == 'error':
            raise self.error
        return self.outcome


def install(sched, *modules):
    """point the given repository modules at the scheduler's virtual primitives; returns an
    undo function"""
    saved = []
    for m in modules:
        for attr, val in (('threading', sched.threading), ('time', sched.time),
                          ('datetime', sched.datetime)):
            if hasattr(m, attr):
                saved.append((m, attr, getattr(m, attr)))
                setattr(m, attr, val)

    def undo():
        for m, attr, val in saved:
            setattr(m, attr, val)
    return undo
