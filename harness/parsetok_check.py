#!/usr/bin/env python3
"""Differential check of the Lean model `ParseTok` (lean/Bardolph/Model/ParseTok.lean) against
the real `Parser().parse`.

The SAME texts go to the real parser and, through the driver command `parse.text`, to the model:
  (a) scripts from `progs.generate` in plain and noisy layouts, also with nested definitions,
  (b) token soup / mutated scripts / character noise from `c06.py`'s generators,
  (c) the fixed rule texts `c06.RULES`, `c06.NESTS`,
  (d) hand-written texts for the odd corners of the parser and number literals.
Compared: the outcome class (accept / reject / silent failure / exception and its class), for a
rejection the line numbers AND texts of all messages, for an accepted text the complete
instruction list in wire form.  Exit status 1 on any disagreement.

Stand-alone: `VERIF_SEED=n python -W ignore harness/parsetok_check.py [--scripts N] [--fuzz N]`.
"""
import os
import random
import re
import sys
import time

sys.path.insert(0, os.path.dirname(os.path.abspath(__file__)))
from core import Driver, REPO  # noqa: E402
import env  # noqa: E402
import progs  # noqa: E402
import c06  # noqa: E402
import vmwire  # noqa: E402

# characters on which the LEXER model is known to differ from `re`'s `\s` / `\d` (recorded
# assumption of Model/Lex.lean, see harness/c16.py): such texts are not compared
UNI_WS = set('\x1c\x1d\x1e\x1f\x85\xa0\u1680\u2028\u2029\u202f\u205f\u3000') | \
    {chr(c) for c in range(0x2000, 0x200b)}


def outside_lexer_model(text):
    if set(text) & UNI_WS:
        return True
    return any(ord(ch) > 127 and ch.isdigit() for ch in text)


def impl_outcome(parser_cls, text):
    parser = parser_cls()
    try:
        ok = parser.parse(text)
    except BaseException as ex:  # noqa
        return ('raised', type(ex).__name__)
    errors = parser.get_errors()
    msgs = []
    for ln in errors.split('\n'):
        if not ln:
            continue
        m = re.match(r'Line (\d+): (.*)$', ln, flags=re.S)
        if m:
            msgs.append((int(m.group(1)), m.group(2)))
        else:
            msgs.append((-1, ln))
    if ok is True:
        prog = [canon_instr(w) for w in vmwire.enc_program(parser.get_program())]
        if msgs:
            return ('accept-with-errors', msgs, prog)
        return ('accept', prog)
    if ok is False:
        if not msgs:
            return ('silent',)
        return ('reject', msgs)
    return ('returned', repr(ok))


def canon_instr(w):
    # a float infinity cannot be written as a fraction; the model calls the instruction `float-inf`
    if '?:inf' in w or '?:-inf' in w:
        return 'float-inf'
    return w


def model_outcome(answer):
    head, _, tail = answer.partition(' ')
    if head == 'accept':
        prog = [vmwire._unesc_out(x) for x in tail.split('\x1f')] if tail else []
        return ('accept', prog)
    if head in ('reject', 'accept-with-errors'):
        lines, _, texts = tail.partition('\x1e')
        ls = [int(x) for x in lines.split(',')] if lines else []
        ts = [vmwire._unesc_out(x) for x in texts.split('\x1f')] if lines else []
        return (head, list(zip(ls, ts)))
    if head == 'silent':
        return ('silent',)
    if head == 'raised':
        return ('raised', tail)
    if head == 'fuel':
        return ('fuel',)
    return ('?', answer[:100])


BAD_FMT = 'Bad format specifier "'


def same(impl, model):
    if impl[0] != model[0]:
        return False
    if impl[0] in ('reject', 'accept-with-errors'):
        a, b = impl[1], model[1]
        if len(a) != len(b):
            return False
        for (la, ta), (lb, tb) in zip(a, b):
            if la != lb:
                return False
            if tb.startswith(BAD_FMT) and tb.endswith('": '):
                # the text of CPython's ValueError is not modelled
                if not ta.startswith(tb):
                    return False
            elif ta != tb:
                return False
        return True
    return impl == model


# ------------------------------------------------------------------ (d) hand-written corners
CORNERS = [
    '', '\n', '#', 'hue', 'hue 5', 'hue hue', 'hue saturation', 'brightness -5', 'kelvin -2.5',
    'hue - x', 'hue -"a"', 'hue - 8:00', 'hue "a"', 'hue 8:00', 'hue 25:00', 'time 5', 'time at 8:00',
    'time at 8:00 or 9:* or *:15', 'time at x', 'define t 8:00 time at t or t', 'define t 8:00 hue t',
    'define t 5 time at t', 'time at 8:00 or', 'time at 8:00 or 5', 'time at or', 'time -8:00',
    'default', 'hue default', 'set default', 'on default', 'off default', 'set all', 'on all', 'off all',
    'set', 'on', 'set "a"', 'set "a" and "b"', 'set "a" and', 'set group "g"', 'set location "l" and "x"',
    'set group', 'set x', 'assign x "a" set x', 'define m "a" set m', 'define m 5 set m', 'set 5',
    'set "a" zone 1', 'set "a" zone 1 2', 'set "a" zone', 'on "a" zone 1', 'set "a" zone hue',
    'set "a" zone x', 'set "a" zone [round 1]', 'set "a" zone {1} {2}', 'set group "a" zone 1',
    'set "a" row 1', 'set "a" row 1 2 column 3', 'set "a" column 1 row 2 3', 'set "a" row 1 row 2',
    'set "a" column 1 column 2', 'set "a" row', 'set "a" column x', 'set group "a" row 1',
    'on "a" row 1', 'off "a" begin end', 'set "a" begin end', 'set "a" begin stage end',
    'set "a" begin stage row 1 end', 'set "a" begin stage row 1 column 2 3 end',
    'set "a" begin stage begin end end', 'set "a" begin set "b" end', 'set "a" begin set all end',
    'set "a" begin on "b" end', 'set "a" begin on all end', 'set "a" begin hue 5 stage end and "b"',
    'set "a" begin off "b" end and "c" row 1', 'set "a" begin set x end', 'set "a" begin set 5 end',
    'stage', 'stage row 1', 'define f stage', 'define f stage row 1 2', 'define f stage begin hue 5 end',
    'define f begin stage begin stage end end', 'define f stage all', 'define f stage default',
    'units raw', 'units rgb', 'units logical', 'units', 'units 5', 'wait', 'pause', 'breakpoint',
    'get', 'get "a"', 'get x', 'assign x "a" get x', 'get hue', 'get [round 1]', 'get {1}',
    'print', 'print 5', 'println', 'println "a"', 'print hue', 'print round', 'print [round 1]',
    'printf', 'printf 5', 'printf "a"', 'printf "{}" 1', 'printf "{} {}" 1', 'printf "{0} {1} {x}" 1 2',
    'printf "{" 1', 'printf "}" 1', 'printf "{x" 1', 'printf "{{}}" 1', 'printf "{:{}}" 1 2',
    'printf "{!r}" 1', 'printf "{!}" 1', 'printf "{a[0]}" 1', 'printf "{a.b}"', 'printf "{0[}" 1',
    'printf "{!r:}" 1', 'printf "{!rx}" 1', 'printf "{:{" 1', 'printf ""', 'printf x',
    'define f "{}" printf f 1', 'printf 8:00', 'printf 25:00', 'printf "{}"', 'printf "{}" "{}"',
    'assign', 'assign 5', 'assign x', 'assign x 5', 'assign x x', 'assign xy 1 assign xy xy',
    'assign x 1 assign x x', 'assign x "x"', 'assign round 5', 'assign round 5 define round 6',
    'assign round 5 define round begin end', 'assign x 1 define x begin end hue x', 'define x 1 assign x 2',
    'assign x 5 hue x', 'assign x 5 hue -x', 'hue y', 'hue round', 'hue [round 5]', 'hue [round]',
    'hue [round 5', 'hue [random 1]', 'hue [random 1 2]', 'hue [random 1 2 3]', 'hue [nosuch]', 'hue [',
    'hue [5]', 'hue {5}', 'hue {5', 'hue {}', 'hue {5 + }', 'hue {5 +', 'hue {(5)}', 'hue {(5}', 'hue {5)}',
    'hue {-5}', 'hue {- - 5}', 'hue {+ - + 5}', 'hue {-(5)}', 'hue {1 + 2 * 3}', 'hue {1 * 2 + 3}',
    'hue {2 ^ 3 ^ 2}', 'hue {1 - 2 - 3}', 'hue {1 < 2 and 3 >= 4 or 5 != 6}', 'hue {not 1}',
    'hue {1 + not 2}', 'hue {not 1 + 2}', 'hue not 1', 'hue not not 1', 'hue {not not 1}', 'hue {1 not 2}',
    'hue {1 + 2 not}', 'hue {1 and not 2}', 'hue {1 or 2 not 3}', 'hue {1 ^ 2 not 3}', 'hue {"a" + "b"}',
    'hue {"+"}', 'hue {1 "+" 2}', 'hue {x}', 'assign x 1 hue {x + hue}', 'hue {[round 1] + [floor 2]}',
    'hue {{1} + 2}', 'hue {{1 + 2} * {3}}', 'hue {1 + {2}', 'hue {8:00}', 'hue {1 == 1}', 'hue {1 = 1}',
    'hue {1 % 2 / 3}', 'hue {1 <= 2 == 3}', 'hue {1 and 2 and 3}', 'hue {1 or 2 and 3 or 4}',
    'round 5', 'round', 'round 5 6', '[round 5]', '[round 5', '[round]', 'random 1 2', 'random 1',
    '[random 1 ]', '[ ]', '[ 5 ]', '{ 5 }', '( 5 )', '+', ']', '}', 'nosuch', 'x', 'assign x 1 x',
    'define f begin end f', 'define f begin end [f]', 'define f begin end hue [f]', 'define f begin end f 1',
    'define f with a begin end f', 'define f with a begin end f 1', 'define f with a b begin end f 1 2',
    'define f with a a begin end', 'define f with a b a begin end', 'define f with begin end',
    'define f with a round begin end', 'define f with a hue 5', 'define f with', 'define f with 5 hue 5',
    'define f with 8:00 hue 5', 'define f with "s" begin hue s end', 'define f with a begin hue a end hue a',
    'define f with a begin assign b a hue b end hue b', 'define f with a return a', 'define f return',
    'define f begin return end', 'define f begin return 5 end', 'define f begin return hue end',
    'define f begin return [round 1] end', 'define f begin return {1} end', 'define f begin return "a" end',
    'define f begin return round end', 'return', 'return 5', 'define f with a begin f a end',
    'define f begin define g 5 end hue g', 'define f begin define g begin end end',
    'define f define g 5', 'define f define g begin end', 'define f begin end define f begin end',
    'define f begin end define f 5', 'define f 5 define f 6', 'define f 5 define f begin end',
    'define f 5 define f begin end f', 'define round begin end', 'define round 5', 'define round 5 hue round',
    'define', 'define 5', 'define f', 'define f g', 'define f 5', 'define f "a"', 'define f 8:00',
    'define f 25:00', 'define f -5', 'define f {5}', 'define f hue', 'define f hue 5', 'define f on all',
    'define m 5 define n m hue n', 'define m 5 define n x', 'define f round', 'define f round 5',
    'define f begin', 'define f begin hue', 'define f while', 'define f while 1', 'define f break',
    'define f wait', 'define f print 5', 'define f if 1 hue 5', 'define f repeat break',
    'if', 'if 1', 'if 1 hue 5', 'if 1 hue 5 else', 'if 1 hue 5 else hue 6', 'if 1 begin end else begin end',
    'if 1 begin hue 5', 'if 1 else', 'if {1} begin hue 5 end else if {2} hue 6 else hue 7',
    'if hue hue 5', 'if "a" hue 5', 'if [round 1] hue 5', 'if not 1 hue 5', 'if x hue 5', 'begin end',
    'end', 'else', 'if 1 begin begin end end', 'if 1 if 2 hue 5 else hue 6',
    'break', 'repeat break', 'repeat begin break end', 'repeat begin if 1 break hue 5 end',
    'repeat begin repeat break break end', 'repeat begin define f break end',
    'repeat begin define f begin repeat break end break end', 'repeat begin set "a" begin break end end',
    'repeat begin set "a" begin repeat break end break end', 'repeat', 'repeat hue 5', 'repeat 5 hue 5',
    'repeat 5', 'repeat 5 begin', 'repeat x hue 5', 'assign x 5 repeat x hue 5', 'repeat hue hue 5',
    'repeat {5} hue 5', 'repeat [round 5] hue 5', 'repeat "a" hue 5', 'repeat round hue 5',
    'repeat while 1 hue 5', 'repeat while hue 5', 'repeat while {hue < 5} hue {hue + 1}', 'repeat while',
    'repeat while x break', 'repeat with', 'repeat with i', 'repeat with i from', 'repeat with i from 1',
    'repeat with i from 1 to', 'repeat with i from 1 to 5', 'repeat with i from 1 to 5 hue i',
    'repeat with 5 from 1 to 5 hue 5', 'repeat with i from 1 5 hue 5', 'repeat with i cycle hue i',
    'repeat with i cycle 5 hue i', 'repeat with i to 5 hue i', 'repeat with i in "a" hue 5',
    'repeat with i in "a" as x hue 5', 'repeat with i in "a" and "b" hue 5', 'repeat with i in all hue 5',
    'repeat with i in group "g" hue 5', 'repeat with i in group hue 5', 'repeat with i in as x hue 5',
    'repeat 5 with i from 1 to 10 hue i', 'repeat 5 with i cycle hue i', 'repeat 5 with i cycle 90 hue i',
    'repeat 5 with i cycle hue hue i', 'repeat 5 with i in "a" hue i', 'repeat 5 with i hue i',
    'repeat 5 with hue 5', 'repeat 5 with i from hue to saturation hue i',
    'repeat all as x hue 5', 'repeat all as x set x', 'repeat all hue 5', 'repeat all as hue 5',
    'repeat all as 5 hue 5', 'repeat all as x', 'repeat all as x with i from 1 to 5 hue i',
    'repeat all as x with i cycle hue i', 'repeat all as x with i cycle 5 hue i',
    'repeat all as x with i in "a" hue i', 'repeat all and "a" as x hue 5', 'repeat all and as x hue 5',
    'repeat all and group "g" as x hue 5', 'repeat all and all as x hue 5', 'repeat all "a" as x hue 5',
    'repeat in "a" as x hue 5', 'repeat in "a" and "b" as x hue 5', 'repeat in "a" and "b" and "c" as x set x',
    'repeat in "a" and as x hue 5', 'repeat in "a" and 5 as x hue 5', 'repeat in "a" and hue as x hue 5',
    'repeat in as x hue 5', 'repeat in all as x hue 5', 'repeat in all "g" as x hue 5',
    'repeat in group "g" as x hue 5', 'repeat in group "g" and location "l" and "a" as x hue 5',
    'repeat in group as x hue 5', 'repeat in group hue as x hue 5', 'repeat in location [round 1] as x hue 5',
    'repeat in [round 1] as x hue 5', 'repeat in {1 + 2} and [round 1] as x hue 5',
    'repeat in group {1} and location [round {2}] as x hue 5', 'repeat in "a" hue 5', 'repeat in x as y hue 5',
    'assign x "a" repeat in x as y hue 5', 'repeat in "a" as round hue 5', 'repeat in 5 as x with',
    'repeat group as g hue 5', 'repeat location as l set l', 'repeat group hue 5', 'repeat group as hue 5',
    'repeat group as g with i from 1 to 2 hue i', 'repeat group as g with i cycle hue i',
    'repeat group "a" as g hue 5', 'repeat location as l with i in "a" hue 5',
    'define f with x begin repeat all as x hue 5 end', 'define x 5 repeat all as x hue x',
    'repeat all as x begin define f hue x end', 'define eof begin end define g', 'define eof begin end [',
    'define eof begin end [eof', 'define eof with a begin end [eof', 'define eof begin end hue [eof',
    'hue 5 hue', 'hue 5\nsaturation\n', 'hue 5\n\nset\n', '\n\n\nbreak', 'hue 1e3', 'hue 1.2.3', 'hue .5',
    'hue 5.', 'hue 007', 'hue 1.', 'hue . 5', 'hue 00.50', 'hue 1_0', 'hue 0x10', 'hue +5', 'hue --5',
    'hue - 5', 'hue -\n5', 'hue -', 'hue - -5', 'define m 2.5 hue -m', 'define m "a" hue -m',
    'define m 8:00 hue -m', 'null', 'unknown', 'error', 'mark', 'name', 'number', 'eof', 'syntax_error',
    'literal_string', 'compare', 'register', 'time_pattern', 'hue null', 'not', 'and', 'as', 'at', 'to',
    'from', 'in', 'or', 'with', 'while', 'cycle', 'zone', 'row', 'column', 'raw', 'rgb', 'logical',
    'group', 'location', 'all', '!', '=', '@', '"', '"abc', 'hue "abc', ':', '8:00', '*', '<', '==',
    'on "a" and group "g" and location "l"', 'off group "g" and "a"', 'on x', 'on group x',
    'assign x "a" on x and x', 'on "a" begin end', 'off "a" zone 1', 'on "a" row 1',
    'define f on "a"', 'define f with a on a', 'define f with a begin on a and a end',
    'set "a" begin stage row 0 hue 5 end', 'set "a" begin repeat 2 begin stage row 0 end end',
    'set "a" begin define f begin hue 5 end end', 'set "a" begin if 1 stage end',
    'define f begin set "a" begin stage end end', 'define f begin set "a" begin return end end',
    'set "a" begin return end', 'set "a" begin break end', 'repeat 2 set "a" begin break end',
    'duration 5 time 2 hue 3 saturation 4 brightness 5 kelvin 6 red 1 green 2 blue 3',
    'H 5 S 6 B 7 K 8', 'hue H', 'define f with H begin end',
    'hue ' + '1' * 4301 + '', 'hue -' + '1' * 4301 + '', 'hue {' + '1' * 4301 + ' + 1}', 'hue {1 + ' + '1' * 4301 + '}', 'define m ' + '1' * 4301 + '', 'define m ' + '1' * 4301 + ' hue m',
    'repeat ' + '1' * 4301 + ' hue 5', 'set ' + '1' * 4301 + '', 'printf ' + '1' * 4301 + '', 'print ' + '1' * 4301 + '', 'get ' + '1' * 4301 + '', 'if ' + '1' * 4301 + ' hue 5',
    'assign x ' + '1' * 4301 + '', 'hue [round ' + '1' * 4301 + ']', 'set "a" zone ' + '1' * 4301 + '', 'set "a" row 1 ' + '1' * 4301 + '', 'time ' + '1' * 4301 + '',
    'repeat with i from 1 to ' + '1' * 4301 + ' hue i', 'repeat in ' + '1' * 4301 + ' as x hue 5', 'hue 5\nsaturation ' + '1' * 4301 + '\n',
    'define f with a return ' + '1' * 4301 + '', 'hue ' + '0' * 4301, 'hue ' + '1' * 4300, 'hue ' + '1' * 4301 + '.5',
    'repeat with i in "a" hue 5', 'repeat with i in', 'repeat 5 with i in "a" hue i', 'repeat all as x with i in "a" hue i',
    'repeat with i in all as x hue 5', 'repeat with in in "a" hue 5',
    'repeat in {"a"} and {"b"} as l begin print l end', 'define f begin return "a" end repeat in [f] and "b" as l print l',
    'define f with n begin return "a" end repeat in "b" and [f 1] and {"c"} as l print l',
    'assign g "G" repeat in group {g} and "c" as l print l', 'assign g "G" repeat in "c" and group {g} as l print l',
    'assign z 0 repeat in {not z} and "b" as l print l', 'repeat in not 1 and "b" as l print l',
    'repeat in location [round 1] and group {1 + 2} as x hue 5', 'repeat in {"a" as l print l',
    'repeat in [nosuch] as l print l', 'repeat in {1 +} and "b" as l print l', 'repeat in group {1 +} as l print l',
    'repeat in {[round {1}] + 2} and [round [floor {3}]] as l print l', 'repeat in all and {"a"} as l print l',
    'repeat all as x with i from {1} to [round 5] hue i', 'repeat in {"a"} and {"b"} as l with i cycle {90} hue i',
    'hue {1 + 2 * }', 'hue {1 + 2 * 3 ^ }', 'hue {1 + 2 ^ (3}', 'repeat with i from 1 to i hue i',
    'repeat with i from i to 5 hue i', 'assign i 1 repeat with i from i to i hue i',
    'repeat 3 with i cycle i hue i', 'repeat with i in i hue 5', 'repeat with i from 1 to 5 repeat with j from i to 5 hue j',
    'define f with a begin repeat with a from a to 5 hue a end',
]


def number_texts(rng, n):
    out = []
    for _ in range(n):
        k = rng.random()
        if k < 0.3:
            a = ''.join(rng.choice('0123456789') for _ in range(rng.randint(0, 20)))
            b = ''.join(rng.choice('0123456789') for _ in range(rng.randint(1, 25)))
            lit = a + '.' + b
        elif k < 0.5:
            lit = '{:.{}f}'.format(rng.uniform(0, 10 ** rng.randint(-5, 25)), rng.randint(1, 20))
        elif k < 0.6:
            # around the limits of binary64
            lit = rng.choice(['1' + '0' * 308, '17976931348623157' + '0' * 292, '17976931348623158' + '0' * 292,
                              '179769313486231580793728971405303415079934132710037826936173778980444968292764750946649017977587207096330286416692887910946555547851940402630657488671505820681908902000708383676273854845817711531764475730270069855571366959622842914819860834936475292719074168444365510704342711559699508093042880177904174497791.9',
                              '179769313486231580793728971405303415079934132710037826936173778980444968292764750946649017977587207096330286416692887910946555547851940402630657488671505820681908902000708383676273854845817711531764475730270069855571366959622842914819860834936475292719074168444365510704342711559699508093042880177904174497792.0',
                              '0.' + '0' * 322 + '1', '0.' + '0' * 323 + '24703282292062327208', '0.' + '0' * 323 + '24703282292062327209',
                              '0.' + '0' * 307 + '22250738585072014', '0.' + '0' * 307 + '22250738585072011',
                              '9007199254740993.0', '9007199254740992.5', '0.1', '0.30000000000000004', '4.35', '2.675',
                              '1' * 400 + '.5', '0.' + '0' * 400 + '1', '1' * 4300, '1' * 4301, '0' * 4301, '1' * 4300 + '.0',
                              '0' * 5000 + '.5'])
        else:
            lit = str(rng.randrange(10 ** rng.randint(1, 30)))
        form = rng.choice(['hue {}', 'hue -{}', 'define m {} hue m hue -m', 'hue {{{} + 1}}', 'repeat {} hue 5'])
        out.append(form.format(lit))
    return out


def main():
    argv = sys.argv[1:]

    def opt(name, default):
        return int(argv[argv.index(name) + 1]) if name in argv else default
    n_scripts = opt('--scripts', 3200)
    n_fuzz = opt('--fuzz', 21000)
    try:
        seed = int(os.environ.get('VERIF_SEED', '0'))
    except ValueError:
        seed = 0
    rng = random.Random(seed * 7919 + 17)
    t0 = time.time()
    env.configure_basic()
    from bardolph.parser.parse import Parser
    internal = c06.internal_words()

    # the built-in routines the model pre-registers must be the ones the runtime provides
    from bardolph.lib.injection import provide
    from bardolph.runtime import bardolph_fn, i_runtime
    live = {n: list(bardolph_fn.params(f)) for n, f in provide(i_runtime.Runtime).get_fns().items()}
    if live != progs.BUILTIN_PARAMS:
        print('WARNING: built-in routine table differs from harness/progs.py:', live)

    inputs = []
    # (a) generated scripts
    for i in range(n_scripts):
        deep = i % 3 == 2
        prog, _pop = progs.generate(rng, size=rng.choice([2, 4, 8, 12]), max_depth=4 if deep else 3,
                                    features={'nested_define': True} if deep else None)
        if i % 2 == 0:
            inputs.append(('script-plain', progs.render(prog)))
        else:
            inputs.append(('script-noisy', progs.render(prog, progs.Layout(rng, noisy=True))))
    # (b) soup / mutants / noise
    base = []
    while sum(1 for s, _ in inputs if s in ('soup', 'mutant', 'noise')) < n_fuzz:
        i = len(inputs)
        k = i % 10
        if k < 5:
            text = c06.token_soup(rng, internal)
            stream = 'soup'
        elif k < 9:
            if not base or rng.random() < 0.3:
                deep = rng.random() < 0.5
                prog, _pop = progs.generate(rng, size=rng.choice([2, 4, 8]), max_depth=4 if deep else 3,
                                            features={'nested_define': deep})
                base.append(progs.render(prog))
                if len(base) > 50:
                    base.pop(0)
            text = rng.choice(base)
            for _ in range(rng.choice([1, 1, 2, 3])):
                text = c06.mutate(rng, text)
            stream = 'mutant'
        else:
            text = c06.noise(rng)
            stream = 'noise'
        if outside_lexer_model(text):
            inputs.append(('outside-lexer-model', text))
        else:
            inputs.append((stream, text))
    # (c) fixed rule texts
    for name, text in c06.RULES:
        inputs.append(('rule', text))
    for text in c06.NESTS:
        inputs.append(('nest', text))
    # (d) corners and number literals
    for text in CORNERS:
        inputs.append(('corner', text))
    for text in number_texts(rng, 400):
        inputs.append(('number', text))

    compared = [(s, t) for s, t in inputs if s != 'outside-lexer-model']
    t1 = time.time()
    impl = [impl_outcome(Parser, t) for _, t in compared]
    t2 = time.time()
    answers = ask_parallel([('parse.text', [t]) for _, t in compared])
    t3 = time.time()

    by_stream, classes, bad = {}, {}, []
    for (stream, text), im, ans in zip(compared, impl, answers):
        mo = model_outcome(ans)
        by_stream[stream] = by_stream.get(stream, 0) + 1
        key = (stream, im[0] if im[0] != 'raised' else 'raised ' + im[1])
        classes[key] = classes.get(key, 0) + 1
        if not same(im, mo):
            bad.append((stream, text, im, mo))
    print('parsetok_check seed={} inputs={} (not compared, outside the lexer model: {})'.format(
        seed, len(compared), len(inputs) - len(compared)))
    print('  by stream: ' + ', '.join('{}={}'.format(k, v) for k, v in sorted(by_stream.items())))
    for k in sorted(classes):
        print('  {:14s} {:22s} {}'.format(k[0], k[1], classes[k]))
    findings = {}
    for (stream, text), im in zip(compared, impl):
        if im[0] in ('raised', 'silent', 'accept-with-errors', 'returned'):
            findings.setdefault(im[0] + ' ' + str(im[1] if len(im) > 1 else ''), text)
    for k, text in findings.items():
        print('  REAL-PARSER FINDING {}: {!r}'.format(k, text[:120]))
    print('  time: generate {:.1f}s, real parser {:.1f}s, model {:.1f}s'.format(t1 - t0, t2 - t1, t3 - t2))
    print('  disagreements: {}'.format(len(bad)))
    for stream, text, im, mo in bad[:12]:
        print('  ---- [{}] {!r}'.format(stream, text[:300]))
        print('     impl : {}'.format(show(im)))
        print('     model: {}'.format(show(mo)))
        if im[0] == 'accept' and mo[0] == 'accept':
            for i, (x, y) in enumerate(zip(im[1] + ['<end>'], mo[1] + ['<end>'])):
                if x != y:
                    print('     first difference at instruction {}: impl {} / model {}'.format(i, x, y))
                    break
    sys.exit(1 if bad else 0)


def ask_parallel(requests, workers=None):
    """the driver is an interpreter run: split the batch over a few processes"""
    import concurrent.futures
    workers = workers or min(8, max(1, (os.cpu_count() or 2) // 2))
    size = (len(requests) + workers - 1) // workers
    chunks = [requests[i:i + size] for i in range(0, len(requests), size)]
    with concurrent.futures.ThreadPoolExecutor(max_workers=workers) as pool:
        parts = list(pool.map(lambda c: Driver().ask_many(c), chunks))
    return [a for part in parts for a in part]


def show(o):
    s = repr(o)
    return s if len(s) < 600 else s[:600] + '…'


if __name__ == '__main__':
    main()
