"""Run a script through the REAL stack (ScriptJob -> Parser -> Loader -> Machine -> wrappers)
on a simulated network and return its canonical trace."""
import sys

import simnet
import vmwire
from core import REPO

if REPO not in sys.path:
    sys.path.insert(0, REPO)


class LogShim:
    """stands in for the `logging` module inside machine.py so that the catch-all of
    Machine.run ("Machine stopped due to …") is observable"""

    def __init__(self):
        self.errors = []
        self.warnings = []

    def error(self, msg, *a):
        self.errors.append(str(msg))

    def warning(self, msg, *a):
        self.warnings.append(str(msg))

    def info(self, *a):
        pass

    def debug(self, *a):
        pass


def stub_random():
    """deterministic stand-in for the PRNG behind `[random a b]`; the Lean model implements the
    same function (`Vm.stubDraw`): the k-th draw from [a, b] is a + (7a + 13b + k) mod (b-a+1).
    Records which stdlib method was called with which bounds."""
    from bardolph.runtime import bardolph_math

    class Stub:
        def __init__(self):
            self.calls = []
            self.k = 0

        def _draw(self, a, b):
            v = a + (7 * a + 13 * b + self.k) % (b - a + 1)
            self.k += 1
            return v

        def randint(self, a, b):
            self.calls.append(('randint', a, b))
            if b < a:
                raise ValueError('empty range for randrange() ({}, {}, {})'.format(a, b + 1, b + 1 - a))
            return self._draw(a, b)

        def randrange(self, a, b=None, step=1):
            self.calls.append(('randrange', a, b))
            if b is None:
                a, b = 0, a
            if b - 1 < a:
                raise ValueError('empty range for randrange()')
            return self._draw(a, b - 1)

        def seed(self, *a):
            pass

    stub = Stub()
    bardolph_math.py_random = stub
    return stub


FLOAT_SENSITIVE = []


def _near(a, b):
    try:
        if isinstance(a, bool) or isinstance(b, bool):
            return False
        return a != b and abs(a - b) <= 1e-9 * max(1.0, abs(a), abs(b))
    except Exception:  # noqa: not numbers
        return False


def install_float_watch():
    """observation only: record every decision the real VM takes that lies within floating-point
    rounding noise (a comparison of two values that differ by less than 1e-9 relative, a
    floor/ceil/trunc/round/modulo within 1e-9 of a jump).  The Lean model computes with exact
    rationals; a run containing such a decision is outside the model's validity and a trace
    difference in it is not reported (it is counted as `float_sensitive_skipped`)."""
    from bardolph.runtime import bardolph_math
    from bardolph.vm.vm_codes import Operator
    from bardolph.vm.vm_math import VmMath
    if getattr(VmMath, '_verif_float_watch', False):
        return
    VmMath._verif_float_watch = True

    def watch_cmp(fn, name):
        def wrapped(a, b):
            if _near(a, b):
                FLOAT_SENSITIVE.append((name, a, b))
            return fn(a, b)
        return wrapped
    for op in (Operator.EQ, Operator.GT, Operator.GTE, Operator.LT, Operator.LTE, Operator.NOTEQ):
        VmMath._fn_table[op] = watch_cmp(VmMath._fn_table[op], op.name)
    mod = VmMath._fn_table[Operator.MOD]

    def watch_mod(a, b):
        try:
            if b and not isinstance(a, bool) and _near(a / b, builtins_round(a / b)):
                FLOAT_SENSITIVE.append(('MOD', a, b))
        except Exception:  # noqa
            pass
        return mod(a, b)
    VmMath._fn_table[Operator.MOD] = watch_mod

    import builtins as real_builtins
    import math as real_math
    builtins_round = real_builtins.round

    def near_jump(x, half=False):
        try:
            y = x * 2 if half else x
            return _near(y, builtins_round(y))
        except Exception:  # noqa
            return False

    class MathShim:
        def __getattr__(self, k):
            return getattr(real_math, k)

        def floor(self, x):
            if near_jump(x):
                FLOAT_SENSITIVE.append(('floor', x))
            return real_math.floor(x)

        def ceil(self, x):
            if near_jump(x):
                FLOAT_SENSITIVE.append(('ceil', x))
            return real_math.ceil(x)

        def trunc(self, x):
            if near_jump(x):
                FLOAT_SENSITIVE.append(('trunc', x))
            return real_math.trunc(x)

    class BuiltinsShim:
        def __getattr__(self, k):
            return getattr(real_builtins, k)

        def round(self, x, *a):
            if near_jump(x, half=True):
                FLOAT_SENSITIVE.append(('round', x))
            return real_builtins.round(x, *a)

    bardolph_math.math = MathShim()
    bardolph_math.builtins = BuiltinsShim()


class Result:
    pass


def compile_script(text):
    from bardolph.controller.script_job import ScriptJob
    job = ScriptJob.from_string(text)
    return job


def run_script(text, pop, faults=None, job=None, settings_overrides=None, timeout=5.0,
               stub=True):
    """returns Result with: compiled (bool), errors, program (list of Instruction), events
    (canonical), fault (None or the catch-all message), net"""
    from bardolph.vm import machine as machine_mod
    res = Result()
    trace = []
    net, ls, trace = simnet.install(pop, faults=faults, trace=trace,
                                    settings_overrides=settings_overrides)
    if stub:
        stub_random()
    else:
        import random as real_random
        from bardolph.runtime import bardolph_math
        bardolph_math.py_random = real_random
    shim = LogShim()
    machine_mod.logging = shim
    res.net = net
    if job is None:
        job = compile_script(text)
    res.job = job
    res.compiled = job.program is not None
    res.errors = job.compile_errors
    res.program = list(job.program) if job.program is not None else None
    res.events = []
    res.fault = None
    install_float_watch()
    del FLOAT_SENSITIVE[:]
    res.timeout = False
    if not res.compiled:
        return res
    del trace[:]
    net.clear_log()
    # watchdog: a script that does not end is stopped (Machine.run tests the flag before
    # every instruction) and reported as a timeout, never compared
    import threading
    fired = []

    def stop():
        fired.append(True)
        job.request_stop()
    timer = threading.Timer(timeout, stop)
    timer.daemon = True
    timer.start()
    try:
        job.execute()
    finally:
        timer.cancel()
    res.timeout = bool(fired)
    res.events = vmwire.impl_events(trace)
    stopped = [m for m in shim.errors if m.startswith('Machine stopped due to')]
    res.fault = stopped[0] if stopped else None
    res.float_sensitive = list(FLOAT_SENSITIVE)
    res.float_range = bool(res.fault and ('Numerical result out of range' in res.fault or
                                          'too large' in res.fault or 'Overflow' in res.fault))
    res.log_errors = shim.errors
    res.warnings = shim.warnings
    return res
