"""Run a script through the REAL stack (ScriptJob -> Parser -> Loader -> Machine -> wrappers)
on a simulated network and return its canonical trace."""
import sys

import simnet
import vmwire
from core import REPO

if REPO not in sys.path:
    sys.path.insert(0, REPO)


class LogShim:
    """stands in for the `logging` module inside machine.py so that the catch-all of
    Machine.run ("Machine stopped due to …") is observable"""

    def __init__(self):
        self.errors = []
        self.warnings = []

    def error(self, msg, *a):
        self.errors.append(str(msg))

    def warning(self, msg, *a):
        self.warnings.append(str(msg))

    def info(self, *a):
        pass

    def debug(self, *a):
        pass


def stub_random():
    """deterministic stand-in for the PRNG behind `[random a b]`; the Lean model implements the
    same function (`Vm.stubDraw`): the k-th draw from [a, b] is a + (7a + 13b + k) mod (b-a+1).
    Records which stdlib method was called with which bounds."""
    from bardolph.runtime import bardolph_math

    class Stub:
        def __init__(self):
            self.calls = []
            self.k = 0

        def _draw(self, a, b):
            v = a + (7 * a + 13 * b + self.k) % (b - a + 1)
            self.k += 1
            return v

        def randint(self, a, b):
            self.calls.append(('randint', a, b))
            return self._draw(a, b)

        def randrange(self, a, b=None, step=1):
            self.calls.append(('randrange', a, b))
            if b is None:
                a, b = 0, a
            if b - 1 < a:
                raise ValueError('empty range for randrange()')
            return self._draw(a, b - 1)

        def seed(self, *a):
            pass

    stub = Stub()
    bardolph_math.py_random = stub
    return stub


class Result:
    pass


def compile_script(text):
    from bardolph.controller.script_job import ScriptJob
    job = ScriptJob.from_string(text)
    return job


def run_script(text, pop, faults=None, job=None, settings_overrides=None, timeout=5.0,
               stub=True):
    """returns Result with: compiled (bool), errors, program (list of Instruction), events
    (canonical), fault (None or the catch-all message), net"""
    from bardolph.vm import machine as machine_mod
    res = Result()
    trace = []
    net, ls, trace = simnet.install(pop, faults=faults, trace=trace,
                                    settings_overrides=settings_overrides)
    if stub:
        stub_random()
    else:
        import random as real_random
        from bardolph.runtime import bardolph_math
        bardolph_math.py_random = real_random
    shim = LogShim()
    machine_mod.logging = shim
    res.net = net
    if job is None:
        job = compile_script(text)
    res.job = job
    res.compiled = job.program is not None
    res.errors = job.compile_errors
    res.program = list(job.program) if job.program is not None else None
    res.events = []
    res.fault = None
    res.timeout = False
    if not res.compiled:
        return res
    del trace[:]
    net.clear_log()
    # watchdog: a script that does not end is stopped (Machine.run tests the flag before
    # every instruction) and reported as a timeout, never compared
    import threading
    fired = []

    def stop():
        fired.append(True)
        job.request_stop()
    timer = threading.Timer(timeout, stop)
    timer.daemon = True
    timer.start()
    try:
        job.execute()
    finally:
        timer.cancel()
    res.timeout = bool(fired)
    res.events = vmwire.impl_events(trace)
    stopped = [m for m in shim.errors if m.startswith('Machine stopped due to')]
    res.fault = stopped[0] if stopped else None
    res.log_errors = shim.errors
    res.warnings = shim.warnings
    return res
