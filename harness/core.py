"""Shared machinery of the per-property checks.

* regenerates the Lean tables from /repo (tools/extract_tables.py), builds the property's
  Lean module, audits the axioms of every theorem in it, greps for forbidden constructs;
* talks to the Lean model driver over the line protocol;
* collects violations found on the REAL code, matches them against known_findings.json,
  prints the KNOWN-FINDING / VIOLATION lines, writes evidence/<id>.json and the replay
  files, and chooses the exit code (0 held, 1 violation, 2 infrastructure failure).
"""
import fcntl
import json
import os
import random
import re
import subprocess
import sys
import time

ROOT = os.path.dirname(os.path.dirname(os.path.abspath(__file__)))
# evidence/ and replays/ go here; runs against a scratch tree (tools/try_seeded.py) redirect them so that
# the evidence of the real tree is not overwritten
OUT = os.environ.get('VERIF_OUT_DIR') or ROOT
LEAN_DIR = os.path.join(ROOT, 'lean')
REPO = os.environ.get('BARDOLPH_REPO', '/repo')
PY = sys.executable
ALLOWED_AXIOMS = {'propext', 'Classical.choice', 'Quot.sound'}
FORBIDDEN = re.compile(
    r'\b(sorry|admit|native_decide|bv_decide|implemented_by|unsafe)\b|^\s*axiom\s|maxHeartbeats\s+0')
AUTO_THM = re.compile(r'(\.eq_\d+|\.eq_def|\.congr_simp|\.sizeOf_spec|\.injEq|\.inj|'
                      r'\.match_\d+[^ ]*|\.proof_\d+|\.noConfusion[^ ]*|\.rec[^ ]*|\.below[^ ]*|'
                      r'\.brecOn[^ ]*|\.casesOn|\.ctorIdx[^ ]*|\.ind|\.induct[^ ]*|\.fun_cases[^ ]*)$')

TRUSTED_BASE = [
    'Lean 4.33.0 kernel (theorems re-checked by `lake build`; leanchecker in the thorough tier)',
    'axioms: subset of {propext, Classical.choice, Quot.sound}, audited per theorem on every run',
    'tools/extract_tables.py: the translator that regenerates Bardolph/Generated/*.lean from /repo',
    'harness/*.py: the correspondence check (generators, canonicaliser, simulated devices, scheduler)',
    'CPython semantics of re/str.format/float/threading are modelled, not verified',
]


def percent_encode(s):
    out = []
    for ch in s:
        o = ord(ch)
        if ch in '%\t\n\r':
            out.append('%{:02x}'.format(o))
        elif o < 32 or o > 126:
            out.append('%u{{{:x}}}'.format(o))
        else:
            out.append(ch)
    return ''.join(out)


class Driver:
    """The Lean model behind the line protocol (`lake env lean --run Driver.lean`)."""

    def __init__(self):
        self.proc = None
        self.lines = 0

    def start(self):
        if self.proc is None:
            self.proc = subprocess.Popen(
                ['lake', 'env', 'lean', '--run', 'Driver.lean'], cwd=LEAN_DIR,
                stdin=subprocess.PIPE, stdout=subprocess.PIPE, stderr=subprocess.PIPE,
                text=True, bufsize=1 << 20)

    def ask_many(self, requests):
        """requests: list of (cmd, [args]); returns list of answer strings (one-shot batch)."""
        payload = ''.join(
            cmd + ''.join('\t' + percent_encode(str(a)) for a in args) + '\n'
            for cmd, args in requests)
        res = subprocess.run(
            ['lake', 'env', 'lean', '--run', 'Driver.lean'], cwd=LEAN_DIR,
            input=payload, capture_output=True, text=True)
        if res.returncode != 0:
            raise InfraError('driver failed: ' + res.stderr[-2000:] + res.stdout[-2000:])
        answers = res.stdout.split('\n')
        if answers and answers[-1] == '':
            answers.pop()
        if len(answers) != len(requests):
            raise InfraError('driver answered {} lines for {} requests; stderr: {}'.format(
                len(answers), len(requests), res.stderr[-1000:]))
        self.lines += len(requests)
        return answers

    def ask(self, cmd, *args):
        return self.ask_many([(cmd, list(args))])[0]


class InfraError(Exception):
    pass


_CHECKS = []     # the Check objects of this process (run_check reports what they had found when
#                  the harness itself fails later on)


class Check:
    def __init__(self, pid, module=None, design_ref='', extra_modules=()):
        _CHECKS.append(self)
        self.pid = pid
        self.module = module or 'Bardolph.Props.' + pid
        # further modules whose theorems belong to this property (helper proofs, split files)
        self.extra_modules = list(extra_modules)
        self.tier = os.environ.get('VERIF_TIER', 'quick')
        args = sys.argv[1:]
        for i, a in enumerate(args):
            if a == '--tier' and i + 1 < len(args):
                self.tier = args[i + 1]
        if self.tier not in ('quick', 'thorough'):
            self.tier = 'quick'
        try:
            self.seed = int(os.environ.get('VERIF_SEED', '0'))
        except ValueError:
            self.seed = 0
        self.rng = random.Random(self.seed * 1000003 + sum(map(ord, pid)))
        self.t0 = time.time()
        self.driver = Driver()
        self.violations = []     # dicts: signature, what, replay
        self.known_hits = []
        self.broken = []         # names of theorems / correspondence streams that no longer check
        self.coverage = {'samples': []}
        self.evaluations = 0
        self.nontrivial = set()
        self.assumptions = []
        self.proof = {'obligations': 0, 'discharged': 0, 'theorems': [], 'build_ok': None}
        self.notes = []
        self.design_ref = design_ref
        os.makedirs(os.path.join(OUT, 'evidence'), exist_ok=True)
        os.makedirs(os.path.join(OUT, 'replays'), exist_ok=True)

    @property
    def thorough(self):
        return self.tier == 'thorough'

    # ---------------------------------------------------------------- Lean side
    def lean_phase(self, sections=None):
        """translator + build + audit + forbidden grep.  Never raises for a failed proof:
        records it in self.broken so that the caller can escalate the search."""
        lock = open(os.path.join(LEAN_DIR, '.build.lock'), 'w')
        fcntl.flock(lock, fcntl.LOCK_EX)
        try:
            res = subprocess.run(
                [PY, os.path.join(ROOT, 'tools', 'extract_tables.py')],
                capture_output=True, text=True, env=dict(os.environ, BARDOLPH_REPO=REPO))
            try:
                report = json.loads(res.stdout)
            except ValueError:
                report = {'ok': False, 'sections': {}, 'raw': res.stdout[-500:] + res.stderr[-500:]}
            self.tables = report
            if not report.get('ok'):
                bad = [k for k, v in report.get('sections', {}).items() if not v.get('ok')]
                norm = lambda n: n.replace('_', '').lower()
                wanted = None if sections is None else {norm(x) for x in sections}
                for k in bad:
                    if wanted is None or norm(k) in wanted:
                        self.broken.append('translator:{}: {}'.format(
                            k, report['sections'][k].get('error')))
                if not report.get('sections'):
                    self.broken.append('translator: ' + report.get('raw', 'no output'))
            # always make sure the driver's dependencies are built
            drv = subprocess.run(['lake', 'build', 'Bardolph.Driver.All'], cwd=LEAN_DIR,
                                 capture_output=True, text=True)
            if drv.returncode != 0:
                raise InfraError('model/driver does not build:\n' + drv.stdout[-3000:])
            res = subprocess.run(['lake', 'build', self.module, 'Bardolph.Audit.Tool']
                                 + self.extra_modules,
                                 cwd=LEAN_DIR, capture_output=True, text=True)
            self.proof['build_ok'] = res.returncode == 0
            self.proof['checker_cmd'] = 'cd lean && lake build {} && #audit_module'.format(
                self.module)
            src = os.path.join(LEAN_DIR, *self.module.split('.')) + '.lean'
            declared = self._declared_theorems(src)
            for extra in self.extra_modules:
                declared += self._declared_theorems(
                    os.path.join(LEAN_DIR, *extra.split('.')) + '.lean')
            if res.returncode != 0:
                failing = self._failing_theorems(res.stdout, src)
                for extra in self.extra_modules:
                    failing += [x for x in self._failing_theorems(
                        res.stdout, os.path.join(LEAN_DIR, *extra.split('.')) + '.lean')
                        if x not in failing and not x.startswith('in ')]
                self.proof['build_log'] = res.stdout[-4000:]
                for name in failing or ['<module {} does not build>'.format(self.module)]:
                    self.broken.append('theorem:' + name)
                self.proof['obligations'] = len(declared)
                self.proof['discharged'] = max(0, len(declared) - max(1, len(failing)))
                self.proof['theorems'] = declared
            else:
                audit = self._audit()
                self.proof['obligations'] = len(audit)
                ok = 0
                for name, axioms in audit:
                    extra = set(axioms) - ALLOWED_AXIOMS
                    if extra:
                        self.broken.append('axioms:{} uses {}'.format(name, sorted(extra)))
                    else:
                        ok += 1
                self.proof['discharged'] = ok
                self.proof['theorems'] = [n for n, _ in audit]
                self.proof['axioms'] = sorted({a for _, ax in audit for a in ax})
            hits = self._forbidden()
            if hits:
                for h in hits:
                    self.broken.append('forbidden-construct:' + h)
        finally:
            fcntl.flock(lock, fcntl.LOCK_UN)
            lock.close()

    def _declared_theorems(self, src):
        names = []
        try:
            with open(src) as f:
                for line in f:
                    m = re.match(r'\s*theorem\s+([^\s:({\[]+)', line)
                    if m:
                        names.append(m.group(1))
        except OSError:
            pass
        return names

    def _failing_theorems(self, log, src):
        """map error line numbers of the property file to the theorem containing them"""
        decls = []
        try:
            with open(src) as f:
                for no, line in enumerate(f, 1):
                    m = re.match(r'\s*(theorem|example|def|lemma)\s+([^\s:({\[]*)', line)
                    if m:
                        decls.append((no, m.group(2) or 'example@{}'.format(no)))
        except OSError:
            return []
        failing = []
        base = os.path.basename(src)
        for m in re.finditer(r'error: ([^\s:]+):(\d+):\d+', log):
            if os.path.basename(m.group(1)) != base:
                name = 'in ' + m.group(1)
            else:
                no = int(m.group(2))
                name = None
                for start, n in decls:
                    if start <= no:
                        name = n
                name = name or 'line {}'.format(no)
            if name not in failing:
                failing.append(name)
        return failing

    def _audit(self):
        mods = [self.module] + self.extra_modules
        text = 'import Bardolph.Audit.Tool\n' + ''.join('import {}\n'.format(m) for m in mods) + \
            ''.join('#audit_module {}\n'.format(m) for m in mods)
        res = subprocess.run(['lake', 'env', 'lean', '--stdin'], cwd=LEAN_DIR, input=text,
                             capture_output=True, text=True)
        if res.returncode != 0:
            raise InfraError('audit failed: ' + res.stdout[-2000:] + res.stderr[-2000:])
        out = []
        for line in res.stdout.splitlines():
            m = re.match(r'THEOREM (\S+) AXIOMS ?(.*)$', line)
            if m and not AUTO_THM.search(m.group(1)):
                axioms = [a for a in m.group(2).split(',') if a]
                out.append((m.group(1), axioms))
        return sorted(out)

    def _forbidden(self):
        hits = []
        base = os.path.join(LEAN_DIR, 'Bardolph')
        for dirpath, _, files in os.walk(base):
            for fn in files:
                if not fn.endswith('.lean'):
                    continue
                path = os.path.join(dirpath, fn)
                in_block = 0
                with open(path) as f:
                    for no, line in enumerate(f, 1):
                        code = line
                        # strip block comments (non-nested is enough for our files) and line comments
                        if in_block:
                            if '-/' in code:
                                code = code.split('-/', 1)[1]
                                in_block = 0
                            else:
                                continue
                        while '/-' in code:
                            pre, post = code.split('/-', 1)
                            if '-/' in post:
                                code = pre + post.split('-/', 1)[1]
                            else:
                                code = pre
                                in_block = 1
                        code = code.split('--', 1)[0]
                        code = re.sub(r'"(\\.|[^"\\])*"', '""', code)
                        if FORBIDDEN.search(code):
                            hits.append('{}:{}'.format(os.path.relpath(path, LEAN_DIR), no))
        return hits

    def leanchecker(self):
        """thorough tier: independent re-check of the compiled property module"""
        res = subprocess.run(['lake', 'env', 'leanchecker', self.module], cwd=LEAN_DIR,
                             capture_output=True, text=True)
        self.proof['leanchecker'] = 'ok' if res.returncode == 0 else res.stdout[-500:] + res.stderr[-500:]
        if res.returncode != 0:
            self.broken.append('leanchecker:' + self.module)

    # ---------------------------------------------------------------- results
    def count(self, n=1):
        self.evaluations += n

    def nontrivial_case(self, key):
        self.nontrivial.add(key)

    def sample(self, obj, limit=8):
        if len(self.coverage['samples']) < limit:
            self.coverage['samples'].append(obj)

    def violation(self, signature, what, replay):
        """a case on which the REAL code violates the property"""
        for v in self.violations:
            if v['signature'] == signature:
                v['count'] += 1
                return
        self.violations.append({'signature': signature, 'what': what, 'replay': replay,
                                'count': 1})

    def disagreement(self, stream, case, impl, model):
        """model and implementation differ on a case the property does not decide"""
        name = 'correspondence:' + stream
        if name not in self.broken:
            self.broken.append(name)
            self.coverage.setdefault('first_disagreements', []).append(
                {'stream': stream, 'case': case, 'impl': impl, 'model': model})

    def _known(self):
        path = os.path.join(ROOT, 'known_findings.json')
        try:
            with open(path) as f:
                data = json.load(f)
        except (OSError, ValueError):
            return []
        return [e for e in data.get('findings', [])
                if e.get('property') == self.pid and e.get('status') == 'open']

    def finish(self, level='proof', extra=None):
        known = self._known()
        new = []
        for v in self.violations:
            hit = None
            for e in known:
                if re.fullmatch(e['signature'], v['signature']):
                    hit = e
                    break
            if hit is not None:
                self.known_hits.append((hit, v))
            else:
                new.append(v)
        lines = []
        exit_code = 0
        import glob
        for stale in glob.glob(os.path.join(OUT, 'replays', '{}_{}_*.json'.format(self.pid, self.tier))):
            os.remove(stale)
        for hit, v in self.known_hits:
            lines.append('KNOWN-FINDING: property={} {} [{}]'.format(
                self.pid, hit.get('what', v['what']), v['signature']))
        for i, v in enumerate(new):
            path = os.path.join('replays', '{}_{}_{}.json'.format(self.pid, self.tier, i))
            with open(os.path.join(OUT, path), 'w') as f:
                json.dump({'property': self.pid, 'signature': v['signature'], 'what': v['what'],
                           'replay': v['replay'], 'seed': self.seed, 'tier': self.tier,
                           'broken': self.broken}, f, indent=1, default=str)
            lines.append('VIOLATION property={} replay={}'.format(self.pid, path))
            exit_code = 1
        if self.broken and not new:
            # a proof obligation or the tie no longer checks and the search found no failing input
            path = os.path.join('replays', '{}_{}_unproved.json'.format(self.pid, self.tier))
            with open(os.path.join(OUT, path), 'w') as f:
                json.dump({'property': self.pid, 'no_longer_checks': self.broken,
                           'first_disagreements': self.coverage.get('first_disagreements', []),
                           'build_log': self.proof.get('build_log', ''),
                           'seed': self.seed, 'tier': self.tier}, f, indent=1, default=str)
            lines.append('VIOLATION property={} replay={} no-failing-input-found'.format(
                self.pid, path))
            exit_code = 1
        cov = dict(self.coverage)
        cov.update({
            'obligations': self.proof['obligations'],
            'discharged': self.proof['discharged'],
            'checker_cmd': self.proof.get('checker_cmd', 'lake build ' + self.module),
            'trusted_base': TRUSTED_BASE,
            'theorems': self.proof['theorems'],
            'axioms_used': self.proof.get('axioms', []),
            'evaluations': max(1, self.evaluations),
            'distinct_nontrivial': len(self.nontrivial),
            'driver_lines': self.driver.lines,
            'no_longer_checks': self.broken,
            'known_findings_hit': [h.get('id') for h, _ in self.known_hits],
        })
        if 'leanchecker' in self.proof:
            cov['leanchecker'] = self.proof['leanchecker']
        if extra:
            cov.update(extra)
        if not cov.get('samples'):
            cov['samples'] = ['(no sample recorded)']
        evidence = {
            'property_id': self.pid, 'tier': self.tier, 'seed': self.seed, 'level': level,
            'coverage': cov, 'assumptions': self.assumptions,
            'wall_s': round(time.time() - self.t0, 2),
            'violations': len(new) + (1 if (self.broken and not new) else 0),
        }
        with open(os.path.join(OUT, 'evidence', self.pid + '.json'), 'w') as f:
            json.dump(evidence, f, indent=1, default=str)
        for line in lines:
            print(line)
        print('{} tier={} seed={} obligations={}/{} evaluations={} nontrivial={} '
              'violations={} known={} wall={:.1f}s'.format(
                  self.pid, self.tier, self.seed, self.proof['discharged'],
                  self.proof['obligations'], self.evaluations, len(self.nontrivial),
                  len(new), len(self.known_hits), time.time() - self.t0))
        sys.stdout.flush()
        # a thread of the code under test that never ends (a stopped script that spins, say) must
        # not keep the check from ending once its verdict is out
        import threading
        stray = [t for t in threading.enumerate()
                 if t is not threading.main_thread() and t.is_alive() and not t.daemon]
        if stray:
            sys.stderr.flush()
            os._exit(exit_code)
        sys.exit(exit_code)


def run_check(main):
    """wrap a check's main(): infrastructure failures exit 2, never 1"""
    try:
        main()
    except InfraError as ex:
        print('INFRASTRUCTURE-FAILURE: {}'.format(ex))
        sys.exit(2)
    except SystemExit:
        raise
    except BaseException as ex:  # noqa: a crash of the harness is never a verdict
        import traceback
        traceback.print_exc()
        early = not [c for c in _CHECKS if c.proof.get('build_ok') is not None]
        print('{}: {}: {}'.format('INFRASTRUCTURE-FAILURE' if early else 'HARNESS-FAILURE',
                                  type(ex).__name__, ex))
        # … but it is not nothing either.  On the unchanged tree the harness runs through; if it
        # fails on a changed tree, the change made the real code do something the harness (the
        # executable side of the tie between model and code) does not expect: the tie no longer
        # checks.  Violations of the real code found BEFORE the failure stand and are reported;
        # if there are none the property is "no longer shown to hold" (VIOLATION …
        # no-failing-input-found, naming the failure), as for a proof that no longer builds.
        # Only failures before the Lean phase has finished stay plain infrastructure failures.
        done = [c for c in _CHECKS if c.proof.get('build_ok') is not None]
        if done and not isinstance(ex, (KeyboardInterrupt, MemoryError)):
            chk = done[0]
            tail = traceback.format_exc().strip().splitlines()[-8:]
            name = 'harness-run:' + type(ex).__name__
            if name not in chk.broken:
                chk.broken.append(name)
            chk.coverage.setdefault('first_disagreements', []).append(
                {'stream': 'harness', 'case': 'the check itself failed', 'impl': str(ex)[:300],
                 'model': 'the harness runs through on the unchanged tree', 'traceback': tail})
            chk.assumptions.append('the harness failed ({}: {}); the streams after that point did not '
                                   'run'.format(type(ex).__name__, str(ex)[:200]))
            try:
                chk.finish()
            except SystemExit:
                raise
            except BaseException:  # noqa
                traceback.print_exc()
        sys.exit(2)


def setup_repo_path():
    if REPO not in sys.path:
        sys.path.insert(0, REPO)
