"""A simulated lifxlan network underneath the repository's REAL wrappers
(`LifxLanApi`, `lifx_lan_light.Light/MultizoneLight/MatrixLight`, `LightSet`).

Devices keep state, record every request attempt (also failing ones) in a shared event
log, and take a fault script saying which attempts raise `WorkflowException`.

Conventions followed (recorded as assumptions):
* `set_zone_color(start, end, …)`: the repository passes `last + 1` as `end`; lifxlan's own
  `set_zone_colors` uses `(i, i+1)` for one zone, so the simulated device colours zones
  `start … end-1`.
* `req_with_resp(GetDeviceChain, …)` answers one tile of the device's height and width.

Population description (JSON-able):
  {"label": str, "group": str, "location": str, "kind": "plain"|"multizone"|"matrix",
   "color": [h,s,b,k], "power": 0|65535, "zones": [[h,s,b,k]…], "height": n, "width": n,
   "cells": [[h,s,b,k]…]}
"""
import logging
import sys
import types

from core import REPO

if REPO not in sys.path:
    sys.path.insert(0, REPO)

from lifxlan.errors import WorkflowException  # noqa: E402
from lifxlan.msgtypes import (GetDeviceChain, GetTileState64, SetTileState64,  # noqa: E402
                              StateDeviceChain, StateTileState64)


class FaultScript:
    """faults[(label, method)] = list of booleans consumed one per attempt (True = raise).
    label '*' addresses the LAN-level calls (get_lights, set_*_all_lights).  When the list
    is exhausted the request succeeds, unless `always` contains the key."""

    def __init__(self, faults=None, always=None):
        self.faults = {k: list(v) for k, v in (faults or {}).items()}
        self.always = set(always or ())

    def should_fail(self, label, method):
        key = (label, method)
        if key in self.always or (label, '*') in self.always:
            return True
        seq = self.faults.get(key)
        if seq:
            return bool(seq.pop(0))
        seq = self.faults.get((label, '*'))
        if seq:
            return bool(seq.pop(0))
        return False


class Net:
    """the shared state of one simulated network"""

    def __init__(self, population, faults=None):
        self.events = []          # (label, method, args…, 'ok'|'fail')
        self.faults = faults or FaultScript()
        self.devices = [SimDevice(self, spec) for spec in population]
        self.vanished = set()     # labels not answering discovery at all
        self.timeline = None      # optional shared list also receiving ('dev', …) entries
        self.on_event = None      # optional callback(event) after each logged request (what
        #                           another thread does between two requests of this one)

    def log(self, label, method, args, outcome):
        self.events.append((label, method, args, outcome))
        if self.timeline is not None:
            self.timeline.append(('dev', label, method, args, outcome))
        if self.on_event is not None:
            hook, self.on_event = self.on_event, None     # not re-entered by its own requests
            try:
                keep = hook((label, method, args, outcome))
            finally:
                if self.on_event is None and keep:
                    self.on_event = hook

    def attempt(self, label, method, args):
        if self.faults.should_fail(label, method):
            self.log(label, method, args, 'fail')
            raise WorkflowException('simulated: {} {}'.format(label, method))
        self.log(label, method, args, 'ok')

    def device(self, label):
        for d in self.devices:
            if d.label == label:
                return d
        return None

    def ok_events(self, label=None, methods=None):
        return [e for e in self.events
                if e[3] == 'ok' and (label is None or e[0] == label)
                and (methods is None or e[1] in methods)]

    def clear_log(self):
        del self.events[:]

    def state(self):
        return {d.label: d.snapshot() for d in self.devices}


def _color(c):
    return [int(x) for x in c]


class SimDevice:
    def __init__(self, net, spec):
        self.net = net
        self.label = spec['label']
        self.group = spec.get('group', 'g')
        self.location = spec.get('location', 'l')
        self.kind = spec.get('kind', 'plain')
        self.color = _color(spec.get('color', [0, 0, 0, 0]))
        self.power = spec.get('power', 0)
        self.zones = [_color(c) for c in spec.get('zones', [])]
        self.height = spec.get('height', 0)
        self.width = spec.get('width', 0)
        cells = spec.get('cells')
        if cells is None:
            cells = [[0, 0, 0, 0]] * (self.height * self.width)
        self.cells = [_color(c) for c in cells]

    # -- identity (never faulted: lifxlan caches these after discovery) --
    def get_label(self):
        return self.label

    def get_group(self):
        return self.group

    def get_location(self):
        return self.location

    def get_product_features(self):
        self.net.attempt(self.label, 'get_product_features', ())
        return {'multizone': self.kind == 'multizone', 'matrix': self.kind == 'matrix',
                'color': True}

    def get_product_name(self):
        return 'sim-' + self.kind

    # -- plain light --
    def get_color(self):
        self.net.attempt(self.label, 'get_color', ())
        return tuple(self.color)

    def set_color(self, color, duration=0, rapid=False):
        self.net.attempt(self.label, 'set_color', (list(color), duration))
        self.color = _color(color)
        if self.kind == 'multizone':
            self.zones = [_color(color) for _ in self.zones]
        if self.kind == 'matrix':
            self.cells = [_color(color) for _ in self.cells]

    def get_power(self):
        self.net.attempt(self.label, 'get_power', ())
        return self.power

    def set_power(self, power, duration=0, rapid=False):
        self.net.attempt(self.label, 'set_power', (power, duration))
        self.power = 65535 if power else 0

    # -- multizone --
    def get_color_zones(self, start=None, end=None):
        self.net.attempt(self.label, 'get_color_zones', (start, end))
        return [tuple(z) for z in self.zones]

    def set_zone_color(self, start_index, end_index, color, duration=0, rapid=False, apply=1):
        self.net.attempt(self.label, 'set_zone_color',
                         (start_index, end_index, list(color), duration))
        for i in range(start_index, end_index):
            if 0 <= i < len(self.zones):
                self.zones[i] = _color(color)

    # -- matrix --
    def req_with_resp(self, msg_type, response_type, payload=None, timeout_secs=1,
                      max_attempts=1):
        if msg_type is GetDeviceChain:
            self.net.attempt(self.label, 'get_device_chain', ())
            return types.SimpleNamespace(
                start_index=0,
                tile_devices=[{'width': self.width, 'height': self.height}])
        if msg_type is GetTileState64:
            self.net.attempt(self.label, 'get_tile_state', ())
            return types.SimpleNamespace(colors=[list(c) for c in self.cells])
        raise AssertionError('unexpected request ' + str(msg_type))

    def fire_and_forget(self, msg_type, payload=None, timeout_secs=1, num_repeats=1):
        if msg_type is SetTileState64:
            colors = payload['colors']
            self.net.attempt(self.label, 'set_tile_state',
                             ([None if c is None else list(c) for c in colors],
                              payload['duration'], payload['width'], payload['height']))
            self.cells = [None if c is None else _color(c) for c in colors]
            return
        raise AssertionError('unexpected message ' + str(msg_type))

    def snapshot(self):
        snap = {'kind': self.kind, 'power': self.power}
        if self.kind == 'plain':
            snap['color'] = list(self.color)
        elif self.kind == 'multizone':
            snap['zones'] = [list(z) for z in self.zones]
        else:
            snap['cells'] = [None if c is None else list(c) for c in self.cells]
        return snap


class SimLan:
    """stands in for lifxlan.LifxLAN"""
    net = None

    def __init__(self, num_lights=None, verbose=False):
        self.num_lights = num_lights

    def get_lights(self):
        net = SimLan.net
        net.attempt('*', 'get_lights', ())
        return [d for d in net.devices if d.label not in net.vanished]

    def set_color_all_lights(self, color, duration=0, rapid=False):
        net = SimLan.net
        net.attempt('*', 'set_color_all_lights', (list(color), duration))
        for d in net.devices:
            d.color = _color(color)
            d.zones = [_color(color) for _ in d.zones]
            d.cells = [_color(color) for _ in d.cells]

    def set_power_all_lights(self, power_level, duration=0, rapid=False):
        net = SimLan.net
        net.attempt('*', 'set_power_all_lights', (power_level, duration))
        for d in net.devices:
            d.power = 65535 if power_level else 0


class VirtualTime:
    """replaces the `time` module inside bardolph.controller.light"""

    def __init__(self):
        self.now = 1000.0

    def time(self):
        return self.now


def install(population, faults=None, trace=None, settings_overrides=None, discover=True):
    """Configure injection with the REAL LifxLanApi / LightSet on a simulated network.
    Returns (net, light_set, trace).  `trace` receives clock and output events (env.py)."""
    import env
    from bardolph.controller import i_controller, lifx_lan_api, light, light_set
    from bardolph.lib import injection
    trace = env.configure_basic(trace, settings_overrides)
    net = Net(population, faults)
    SimLan.net = net
    lifx_lan_api.lifxlan.LifxLAN = SimLan
    vt = VirtualTime()
    light.time = vt
    net.clock = vt
    lifx_lan_api.configure()
    ls = light_set.LightSet()
    injection.bind_instance(ls).to(i_controller.LightSet)
    if discover:
        net.discover_result = ls.discover()
    net.trace = trace
    net.timeline = trace
    return net, ls, trace


def device_calls(net, label=None):
    """the successfully delivered state-changing requests, canonical form"""
    keep = ('set_color', 'set_power', 'set_zone_color', 'set_tile_state',
            'set_color_all_lights', 'set_power_all_lights')
    return [(e[0], e[1], e[2]) for e in net.ok_events(label, keep)]
