#!/usr/bin/env python3
"""C16 — compilation depends only on the token sequence; every documented name is usable."""
import itertools
import os
import sys

sys.path.insert(0, os.path.dirname(os.path.abspath(__file__)))
from core import Check, run_check  # noqa: E402
import env  # noqa: E402
import progs  # noqa: E402
import runimpl  # noqa: E402
import vmwire  # noqa: E402

ABBREV = {'hue': 'H', 'saturation': 'S', 'brightness': 'B', 'kelvin': 'K'}
# the documented lower-case keywords and register names (docs/language.rst, iteration.rst,
# functions.rst) — written out here so that the oracle does not depend on the translator
DOC_KEYWORDS = ['all', 'and', 'as', 'assign', 'at', 'begin', 'break', 'column', 'cycle', 'default',
                'define', 'else', 'end', 'from', 'get', 'group', 'if', 'in', 'location', 'logical',
                'off', 'on', 'or', 'pause', 'print', 'printf', 'println', 'raw', 'repeat', 'return',
                'rgb', 'row', 'set', 'stage', 'to', 'units', 'wait', 'while', 'with', 'zone']
DOC_REGISTERS = ['hue', 'saturation', 'brightness', 'kelvin', 'red', 'green', 'blue', 'default',
                 'duration', 'time']
PUNCT = set('[]{}()+-*/%^<>=!')
BUILTINS = set(progs.BUILTIN_PARAMS)


# texts that are rejected in the middle of a loop, a routine, a matrix block, an expression, a call
POISONS = ['repeat 2 begin nosuch end', 'define f begin repeat 3 begin hue nosuch end end',
           'set "Candle" begin stage row 1 column', 'repeat all as x begin repeat 2 begin print {x +',
           'define g with a begin if {a > 0} begin return nosuch end end', 'print [round',
           'set "Candle" begin stage row 0 nosuch', 'units raw define m 5 assign v nosuch']


def compile_program(text, history=None):
    """compile `text` with a new parser — or, with `history`, with a parser that has just been
    given (and has rejected) that other text, as a ScriptJob that is loaded twice does"""
    from bardolph.parser.parse import Parser
    parser = Parser()
    if history is not None:
        try:
            parser.parse(history)
        except Exception:  # noqa  (C06's business)
            pass
    try:
        ok = parser.parse(text)
    except Exception as ex:  # noqa
        return ('raised', type(ex).__name__ + ': ' + str(ex)[:80])
    if not ok:
        return ('reject', parser.get_errors())
    return ('accept', [vmwire.enc_instr_fixed(i) for i in parser.get_program()])


def _negated(a):
    """wire form of the negated numeric literal, or None"""
    if a.startswith('i:'):
        try:
            return 'i:{}'.format(-int(a[2:]))
        except ValueError:
            return None
    if a.startswith('f:'):
        n, _, d = a[2:].partition('/')
        try:
            return 'f:{}/{}'.format(-int(n), d)
        except ValueError:
            return None
    return None


def fold_negation(code):
    """PUSHQ n; PUSHQ -1; OP mul == PUSHQ -n for a numeric literal n (C16_negate_int,
    C16_negate_num): a signed literal is ONE constant bare and a product in braces"""
    out, index, i = [], {}, 0
    while i < len(code):
        index[i] = len(out)
        if i + 2 < len(code) and code[i].startswith('PUSHQ|') and code[i + 1] == 'PUSHQ|i:-1|' and \
                code[i + 2].startswith('OP|') and code[i + 2].split('|')[1].endswith('MUL'):
            neg = _negated(code[i].split('|')[1])
            if neg is not None:
                index[i + 1] = index[i + 2] = len(out)
                out.append(('PUSHQ|{}|'.format(neg), i))
                i += 3
                continue
        out.append((code[i], i))
        i += 1
    index[len(code)] = len(out)
    res = []
    for k, (ins, old) in enumerate(out):
        if ins.startswith('JUMP|') and ins.split('|')[2].startswith('i:'):
            parts = ins.split('|')
            target = old + int(parts[2][2:])
            if target in index:
                parts[2] = 'i:{}'.format(index[target] - k)
                ins = '|'.join(parts)
        res.append(ins)
    return res


def peephole(code):
    """PUSHQ v; POP d == MOVEQ v d and PUSH s; POP d == MOVE s d (proved VM lemmas,
    Props/C16.lean): normalise before comparing a braced single value with the bare one.
    Relative jump offsets are re-expressed over the shortened code."""
    code = fold_negation(code)
    out = []
    new_index = {}
    i = 0
    while i < len(code):
        new_index[i] = len(out)
        if i + 1 < len(code) and code[i + 1].startswith('POP|'):
            op, a, _ = code[i].split('|', 2)
            dest = code[i + 1].split('|')[1]
            if op == 'PUSHQ' or (op == 'PUSH' and a[:2] in ('R:', 's:', 'L:')):
                new_index[i + 1] = len(out)
                if op == 'PUSHQ':
                    out.append(('MOVEQ|{}|{}'.format(a, dest), i))
                elif a != dest:
                    out.append(('MOVE|{}|{}'.format(a, dest), i))
                i += 2
                continue
        parts0 = code[i].split('|')
        if parts0[0] == 'MOVE' and parts0[1] == parts0[2]:
            i += 1          # a move of a register or variable onto itself is no code at all
            continue
        out.append((code[i], i))
        i += 1
    new_index[len(code)] = len(out)
    result = []
    for k, (ins, old) in enumerate(out):
        if ins.startswith('JUMP|') and ins.split('|')[2].startswith('i:'):
            parts = ins.split('|')
            target = old + int(parts[2][2:])
            if target in new_index:
                parts[2] = 'i:{}'.format(new_index[target] - k)
                ins = '|'.join(parts)
        result.append(ins)
    return result


def is_time_pattern(tok):
    return ':' in tok and not tok.startswith('"')


def relayout(rng, tokens, mode):
    """another text with the same token sequence"""
    out = []
    for i, t in enumerate(tokens):
        if mode in ('abbrev', 'all') and t in ABBREV and rng.random() < 0.7:
            t = ABBREV[t]
        if i > 0:
            prev = tokens[i - 1]
            # a time pattern needs white space before it; after it a comment or a closing bracket
            # may follow directly
            tight_ok = (mode in ('tight', 'all')) and \
                not (is_time_pattern(prev) and t[0] not in '#]') and \
                not is_time_pattern(t) and not prev.startswith('"') and not t.startswith('"') and \
                ((t[0] in PUNCT) or (prev[-1] in PUNCT)) and \
                not (prev[-1] in '<>=!' and t[0] in '=') and not (prev in '<>' and t[0] in '=')
            if tight_ok and rng.random() < 0.8:
                sep = ''
            elif mode in ('space', 'all'):
                r = rng.random()
                if r < 0.4:
                    sep = ' '
                elif r < 0.55:
                    sep = '\t  '
                elif r < 0.8:
                    sep = '\n' + ' ' * rng.randrange(0, 5)
                elif r < 0.9:
                    # a comment, glued to the token before it as often as not (a quoted string
                    # swallows nothing: `#` after the closing quote starts the comment)
                    sep = rng.choice([' # ', '#', ' #', '# ']) + \
                        rng.choice(['comment', 'set all', '"x', '{ [ (', 'end end', 'H:S', 'old\x0chue 300',
                                    'a\x0bset all', 'x\u2028off all', 'y\x85on all', 'z\x1coff all']) + '\n'
                else:
                    sep = '\r\n'
            else:
                sep = ' '
            out.append(sep)
        out.append(t)
    return ''.join(out) + rng.choice(['', '\n', '  # end\n', '\n\n'])


def all_tokens(stmts):
    toks = []
    for s in stmts:
        toks += progs.stmt_tokens(s)
    return toks


def with_braces(rng, stmts, p=0.6):
    """`hue 5` -> `hue {5}` etc.: wrap single values in braces in EVERY position the grammar calls
    a value — register values, assigned / printed / returned values, `printf` values, routine
    arguments (also inside bracketed calls), `if` conditions, loop counts, bounds and cycle
    starts, the items of `repeat in … and …` lists and the group / location names in them, zone
    and row / column numbers, the name after `get`.  (Not values: the operands of set/on/off, the
    constant of a macro definition, time patterns.)"""
    def rv(x):
        if x is None:
            return x
        if x[0] in ('num', 'var', 'reg', 'macro', 'str') and rng.random() < p:
            # (a negative literal too: `{-5}` is a product, `-5` one constant — fold_negation)
            return ('expr', x)
        if x[0] == 'call':
            return ('call', x[1], [rv(a) for a in x[2]]) + tuple(x[3:])
        return x

    def rng_(r):
        return None if r is None else (rv(r[0]), rv(r[1]))

    def with_part(w):
        if w is None:
            return None
        if w[0] == 'from':
            return ('from', w[1], rv(w[2]), rv(w[3]))
        return ('cycle', w[1], rv(w[2]))

    def hdr(h):
        f = h[0]
        if f == 'count':
            return ('count', rv(h[1]))
        if f == 'range':
            return ('range', h[1], rv(h[2]), rv(h[3]))
        if f == 'interp':
            return ('interp', rv(h[1]), h[2], rv(h[3]), rv(h[4]))
        if f == 'cycle':
            return ('cycle', rv(h[1]), h[2], rv(h[3]))
        if f == 'while':
            return ('while', rv(h[1])) + tuple(h[2:])
        if f in ('all', 'groups', 'locations'):
            return (f, h[1], with_part(h[2]))
        if f == 'in':
            return ('in', [(k, rv(n)) for k, n in h[1]], h[2], with_part(h[3]))
        return h

    def operand(op):
        k = op[0]
        if k == 'zone':
            return ('zone', op[1], rv(op[2]), rv(op[3]))
        if k == 'matrix':
            return ('matrix', op[1], rng_(op[2]), rng_(op[3]), op[4])
        if k == 'matrix_block':
            return ('matrix_block', op[1], with_braces(rng, op[2], p))
        return op

    out = []
    for s in stmts:
        k = s[0]
        if k == 'setreg' and s[1] != 'time':
            out.append((k, s[1], rv(s[2])))
        elif k == 'assign':
            out.append((k, s[1], rv(s[2])))
        elif k in ('print', 'println', 'return'):
            out.append((k, rv(s[1])))
        elif k == 'printf':
            out.append((k, s[1], [rv(a) for a in s[2]]))
        elif k == 'call':
            out.append((k, s[1], [rv(a) for a in s[2]]) + tuple(s[3:]))
        elif k == 'get':
            out.append((k, rv(s[1])))
        elif k == 'stage':
            out.append((k, rng_(s[1]), rng_(s[2]), s[3]))
        elif k == 'action' and isinstance(s[2], list):
            out.append((k, s[1], [operand(o) for o in s[2]]))
        elif k == 'if':
            out.append((k, rv(s[1]), with_braces(rng, s[2], p),
                        None if s[3] is None else with_braces(rng, s[3], p)))
        elif k == 'repeat':
            out.append((k, hdr(s[1]), with_braces(rng, s[2], p)))
        elif k == 'define':
            out.append((k, s[1], s[2], with_braces(rng, s[3], p)))
        else:
            out.append(s)
    return out


def with_brackets(stmts):
    """`f 1 2` -> `[f 1 2]` where the statement position allows it unambiguously: after a
    statement that cannot absorb a following value"""
    out = []
    prev_closed = True
    for s in stmts:
        if s[0] == 'call' and prev_closed:
            out.append((s[0], s[1], s[2], True))
        elif s[0] == 'define':
            out.append((s[0], s[1], s[2], with_brackets(s[3])))
        else:
            out.append(s)
        prev_closed = s[0] in ('assign', 'setreg', 'units', 'wait', 'define', 'define_macro')
    return out


def ident_cases(chk, thorough):
    from bardolph.lib import injection  # noqa
    start = 'abzAZ_'
    rest = 'abzAZ_09'
    idents = set(itertools.chain(start, (a + b for a in start for b in rest)))
    full_start = [chr(c) for c in range(ord('a'), ord('z') + 1)] + \
        [chr(c) for c in range(ord('A'), ord('Z') + 1)] + ['_']
    idents.update(full_start)
    if thorough:
        full_rest = full_start + list('0123456789')
        idents.update(a + b for a in full_start for b in full_rest)
        idents.update(a + b + c for a in 'aZ_' for b in full_rest for c in full_rest)
    for _ in range(4000 if thorough else 400):
        n = chk.rng.randint(3, 8)
        idents.add(chk.rng.choice(start) + ''.join(chk.rng.choice(rest + 'xyQ_') for _ in range(n - 1)))
    # every case variant of every keyword, register word, abbreviation and internal class name
    words = set()
    from bardolph.parser.token import TokenTypes
    for w in DOC_KEYWORDS + DOC_REGISTERS + ['breakpoint', 'not'] + \
            [m.name.lower() for m in TokenTypes] + ['h', 's', 'b', 'k']:
        words.update({w, w.upper(), w.capitalize(), w[:-1] + w[-1].upper(), w + '_', '_' + w, w + '1'})
    idents.update(w for w in words if w and (w[0].isalpha() or w[0] == '_'))
    return sorted(idents)


def main():
    chk = Check('C16', extra_modules=['Bardolph.Proofs.LexLemmas'])
    chk.lean_phase(sections={'LexTables'})
    env.configure_basic()
    rng = chk.rng
    stats = {'relayouts': 0, 'relayout_modes': {}, 'brace_variants': 0, 'bracket_variants': 0,
             'identifiers': 0, 'identifier_uses': 0, 'strings': 0, 'lex_requests': 0,
             'lex_mismatch': 0}
    # the manual documents neither `breakpoint` nor `not`: by the property's wording they are
    # ordinary names (known finding C16-F2)
    reserved = set(DOC_KEYWORDS) | set(DOC_REGISTERS) | {'H', 'S', 'B', 'K'}
    lex_texts = []
    # ---- 1. same token sequence, different layout -> same program
    n = 1500 if chk.thorough else 220
    for i in range(n):
        prog, pop = progs.generate(rng, size=8, max_depth=3)
        tokens = all_tokens(prog)
        base = compile_program(' '.join(tokens))
        chk.count()
        if base[0] != 'accept':
            chk.violation('generated-script-rejected', 'generated script rejected: ' + str(base[1])[:100],
                          {'script': ' '.join(tokens)})
            continue
        ok = True
        for mode in ('space', 'tight', 'abbrev', 'all'):
            text = relayout(rng, tokens, mode)
            got = compile_program(text)
            stats['relayouts'] += 1
            stats['relayout_modes'][mode] = stats['relayout_modes'].get(mode, 0) + 1
            if i % 10 == 0:
                lex_texts.append(text)
            if got != base:
                ok = False
                what = 'rejected: ' + str(got[1])[:80] if got[0] != 'accept' else 'different program'
                chk.violation('layout-changes-program:' + mode,
                              'the same tokens laid out differently ({}) give {}'.format(mode, what),
                              {'original': ' '.join(tokens), 'relayout': text})
                break
        # the token sequence is ALL that compilation depends on: the same text given to a parser
        # whose previous text was rejected half-way compiles to the same program
        if ok:
            poison = POISONS[i % len(POISONS)]
            got = compile_program(' '.join(tokens), history=poison)
            stats['relayout_modes']['after-rejected-text'] = stats['relayout_modes'].get('after-rejected-text', 0) + 1
            if got != base:
                ok = False
                what = 'rejected: ' + str(got[1])[:80] if got[0] != 'accept' else 'different program'
                chk.violation('compile-depends-on-previous-text',
                              'the same text gives {} when the parser\'s previous text was {!r}'.format(what, poison),
                              {'previous': poison, 'text': ' '.join(tokens)})
        # optional braces / brackets: same program up to the two proved peephole equivalences
        braced = with_braces(rng, prog)
        got = compile_program(' '.join(all_tokens(braced)))
        stats['brace_variants'] += 1
        if got[0] != 'accept' or peephole(got[1]) != peephole(base[1]):
            ok = False
            chk.violation('braces-change-program',
                          'curly braces round single values change the compiled program',
                          {'original': ' '.join(tokens), 'variant': ' '.join(all_tokens(braced)),
                           'result': str(got)[:200]})
        bracketed = with_brackets(prog)
        if bracketed != prog:
            got = compile_program(' '.join(all_tokens(bracketed)))
            stats['bracket_variants'] += 1
            if got != base:
                ok = False
                chk.violation('brackets-change-program',
                              'square brackets round a routine call change the compiled program',
                              {'original': ' '.join(tokens),
                               'variant': ' '.join(all_tokens(bracketed)), 'result': str(got)[:200]})
        if ok:
            chk.nontrivial_case(' '.join(tokens))
    chk.sample({'tokens': 'hue 120 set "A" and "B"', 'relayout': 'H\t120 # c\nset"A"and"B"'})
    # ---- 2. every identifier that is not a documented word is usable, case-sensitively
    idents = ident_cases(chk, chk.thorough)
    for ident in idents:
        if ident in reserved or ident in BUILTINS:
            continue
        stats['identifiers'] += 1
        other = ident.swapcase() if ident.swapcase() != ident and \
            ident.swapcase() not in reserved and ident.swapcase() not in BUILTINS and \
            ident.swapcase() not in ('breakpoint', 'not') else None
        uses = {
            'variable': ('assign {0} 5 print {0}'.format(ident), [5]),
            'macro': ('define {0} 7 print {0}'.format(ident), [7]),
            'parameter': ('define fq9 with {0} begin return {0} end print [fq9 3]'.format(ident), [3]),
            'routine': ('define {0} with zq9 begin return zq9 end print [{0} 4]'.format(ident), [4]),
        }
        if other:
            uses['case-sensitive'] = ('assign {0} 1 assign {1} 2 print {0} print {1}'.format(ident, other), [1, 2])
        for use, (script, want) in uses.items():
            res = runimpl.run_script(script, [])
            chk.count()
            stats['identifier_uses'] += 1
            outs = [e[1] for e in res.events if e[0] == 'O'] if res.compiled else None
            if outs != want or res.fault is not None:
                sig = 'name-not-usable'
                if ident in ('breakpoint', 'not'):
                    sig = 'undocumented-keyword-not-usable-as-name'
                chk.violation(sig,
                              '{!r} as {}: {}'.format(ident, use, ('rejected: ' + res.errors.strip()[:80])
                                                      if not res.compiled else 'printed {}'.format(outs)),
                              {'script': script, 'expected_output': want})
                break
        else:
            chk.nontrivial_case('id:' + ident)
    # ---- 2b. square brackets round a routine call in every statement position
    G = 'define g with a begin return a end '
    pairs = [(G + 'define f g 1 f', G + 'define f [g 1] f'), (G + 'if {1>0} g 1', G + 'if {1>0} [g 1]'),
             (G + 'repeat 2 g 1', G + 'repeat 2 [g 1]'), (G + 'if {1>0} g 1 else g 2', G + 'if {1>0} [g 1] else [g 2]'),
             (G + 'g [g 1]', G + '[g [g 1]]'), (G + 'repeat all as x g 1', G + 'repeat all as x [g 1]'),
             (G + 'define h with z g z h 2', G + 'define h with z [g z] h 2'),
             (G + 'set "Candle" begin g 1 stage row 0 end', G + 'set "Candle" begin [g 1] stage row 0 end'),
             (G + 'define n begin g 1 end n', G + 'define n begin [g 1] end [n]'),
             ('define q begin print 1 end q', 'define q begin print 1 end [q]'),
             ('define q begin print 1 end define r q r', 'define q begin print 1 end define r [q] [r]'),
             (G + 'repeat while {1 > 2} g 1', G + 'repeat while {1 > 2} [g 1]'),
             (G + 'define h begin g 1 g 2 end h', G + 'define h begin [g 1] [g 2] end [h]')]
    for plain, bracketed in pairs:
        a, b = compile_program(plain), compile_program(bracketed)
        chk.count()
        na = ('accept', peephole(a[1])) if a[0] == 'accept' else a
        nb = ('accept', peephole(b[1])) if b[0] == 'accept' else b
        if a[0] != 'accept' or na != nb:
            chk.violation('brackets-change-program',
                          'brackets round a routine call change the result: `{}` gives {}, `{}` gives {}'.format(
                              plain[-40:], str(na)[:60], bracketed[-40:], str(nb)[:80]),
                          {'plain': plain, 'bracketed': bracketed})
        else:
            chk.nontrivial_case('br:' + bracketed)
        lex_texts.append(bracketed)
    # ---- 2c. curly braces round a single value in every position the grammar calls a value
    value_pairs = [
        # a signed literal wherever a value may stand, bare and in braces
        ('print -5', 'print {-5}'), ('println -2.5', 'println {-2.5}'), ('hue -5 assign x -7 print x', 'hue {-5} assign x {-7} print x'),
        ('define f begin return -5 end print [f]', 'define f begin return {-5} end print [f]'),
        ('repeat -2 print 1', 'repeat {-2} print 1'), ('repeat 4 with h cycle -90 print h', 'repeat 4 with h cycle {-90} print h'),
        ('repeat with i from -2 to -4 print i', 'repeat with i from {-2} to {-4} print i'),
        ('define g with a b begin print a print b end g -1 -2', 'define g with a b begin print a print b end g {-1} {-2}'),
        ('printf "{} {}" -1 -2.5', 'printf "{} {}" {-1} {-2.5}'), ('if -1 print 1', 'if {-1} print 1'),
        ('repeat in "a" and "b" as l print l', 'repeat in {"a"} and {"b"} as l print l'),
        ('repeat in "a" and "b" and "c" as l print l', 'repeat in "a" and {"b"} and "c" as l print l'),
        ('assign g "G" repeat in group g as l print l', 'assign g "G" repeat in group {g} as l print l'),
        ('assign g "G" repeat in "c" and group g and location g as l print l',
         'assign g "G" repeat in {"c"} and group {g} and location {g} as l print l'),
        ('assign n "a" repeat in n and "b" as l print l', 'assign n "a" repeat in {n} and "b" as l print l'),
        ('repeat in "a" and "b" as l with i from 1 to 2 hue i',
         'repeat in {"a"} and {"b"} as l with i from {1} to {2} hue {i}'),
        ('repeat in group "G" as l with i cycle 90 hue i', 'repeat in group {"G"} as l with i cycle {90} hue i'),
        ('repeat 3 hue 5', 'repeat {3} hue {5}'),
        ('repeat with i from 1 to 5 hue i', 'repeat with i from {1} to {5} hue {i}'),
        ('repeat 3 with i from 1 to 5 hue i', 'repeat {3} with i from {1} to {5} hue i'),
        ('repeat 3 with i cycle 90 hue i', 'repeat {3} with i cycle {90} hue i'),
        ('repeat all as x with i from 1 to 5 hue i', 'repeat all as x with i from {1} to {5} hue i'),
        ('repeat group as x with i cycle 10 hue i', 'repeat group as x with i cycle {10} hue i'),
        ('assign x 1 repeat while x assign x 0', 'assign x 1 repeat while {x} assign x {0}'),
        ('set "a" zone 1 2', 'set "a" zone {1} {2}'), ('set "a" zone 1', 'set "a" zone {1}'),
        ('set "a" row 1 2 column 3', 'set "a" row {1} {2} column {3}'),
        ('set "a" begin stage row 0 column 1 2 end', 'set "a" begin stage row {0} column {1} {2} end'),
        ('define f with a b begin return a end print [f 1 2] f 3 4',
         'define f with a b begin return {a} end print [f {1} {2}] f {3} {4}'),
        ('print [round 2.5] hue [floor saturation]', 'print [round {2.5}] hue [floor {saturation}]'),
        ('printf "{} {} {x}" 1 hue', 'printf "{} {} {x}" {1} {hue}'),
        ('print "s" println "t" println 5 print 5', 'print {"s"} println {"t"} println {5} print {5}'),
        ('get "a" assign n "b" get n', 'get {"a"} assign n "b" get {n}'),
        ('if 1 hue 5 else hue 6', 'if {1} hue {5} else hue {6}'),
        ('define m 7 hue m duration m', 'define m 7 hue {m} duration {m}'),
        ('define f begin return 5 end define h begin return end', 'define f begin return {5} end define h begin return end'),
        ('time 5 duration 2.5 kelvin hue', 'time {5} duration {2.5} kelvin {hue}'),
    ]
    for plain, braced in value_pairs:
        a, b = compile_program(plain), compile_program(braced)
        chk.count()
        na = ('accept', peephole(a[1])) if a[0] == 'accept' else a
        nb = ('accept', peephole(b[1])) if b[0] == 'accept' else b
        if a[0] != 'accept' or na != nb:
            chk.violation('braces-change-program',
                          'braces round a single value change the result: `{}` vs `{}`: {}'.format(
                              plain[-50:], braced[-60:], str(nb)[:80] if nb[0] != 'accept' else 'different program'),
                          {'plain': plain, 'braced': braced})
        else:
            chk.nontrivial_case('bv:' + braced)
        lex_texts.append(braced)
    # a list of lights is visited in the order written, whatever form its items have
    lights3 = [{'label': n, 'group': g, 'location': 'L', 'kind': 'plain'}
               for n, g in (('a', 'G'), ('b', 'G'), ('c', 'H'))]
    NM = 'define nm with n begin return "a" end '
    order_cases = [
        (NM + 'repeat in [nm 1] and "b" as l print l', ['a', 'b']),
        (NM + 'repeat in "b" and [nm 1] and {"c"} as l print l', ['b', 'a', 'c']),
        (NM + 'repeat in {"c"} and "b" and [nm 1] as l print l', ['c', 'b', 'a']),
        ('assign g "G" repeat in group {g} and "c" as l print l', ['a', 'b', 'c']),
        ('assign g "H" repeat in "a" and group {g} as l print l', ['a', 'c']),
        ('define gn begin return "H" end repeat in group [gn] and "a" as l print l', ['c', 'a']),
        ('assign z 0 repeat in {"b"} and "a" as l print l', ['b', 'a']),
    ]
    for script, want in order_cases:
        res = runimpl.run_script(script, [dict(x) for x in lights3])
        chk.count()
        outs = [e[1] for e in res.events if e[0] == 'O'] if res.compiled else None
        if outs != want or res.fault is not None:
            chk.violation('braces-change-program',
                          'a braced / bracketed item of a `repeat in` list is not visited in its place: '
                          '`{}` printed {} instead of {}'.format(
                              script[-60:], outs if res.compiled else 'rejected: ' + res.errors.strip()[:60], want),
                          {'script': script, 'expected_output': want})
        else:
            chk.nontrivial_case('ord:' + script)
    # ---- 3. a quoted string may contain anything but a double quote or a line break
    # every character other than the double quote and the line feed, control characters and the
    # other things some library calls a "line boundary" included (VT, FF, FS, GS, RS, NEL, LS, PS,
    # a bare CR): the language's only line break is the line feed
    chars = [chr(c) for c in range(32, 127) if chr(c) != '"'] + ['\t', 'é', 'Ω', '日', '\x7f', '\xa0'] + \
        ['\x0b', '\x0c', '\x1c', '\x1d', '\x1e', '\x1f', '\x85', '\u2028', '\u2029', '\r', '\x01', '\x00']
    strings = [''.join(rng.choice(chars) for _ in range(rng.randint(1, 10)))
               for _ in range(1500 if chk.thorough else 300)]
    strings += [c for c in chars] + ['#', ' # x', '{', '}', '[', ']', '(', '-', '+', '%', '12:30',
                                     'hue', 'end', 'a\\', '\\', 'a\\b', '\\\\', "it's", '  ', '-5',
                                     '{0}', 'begin end']
    # what a string says must not matter: the names of a routine, a macro and a variable of the
    # script itself, of built-in routines, keywords and register names, as string contents
    strings += ['rtn', 'mac', 'vr', 'v', 'm', 'round', 'cycle', 'random', 'sqrt'] + sorted(DOC_KEYWORDS)[:80] + \
        sorted(DOC_REGISTERS)
    for sv in strings:
        stats['strings'] += 1
        script = ('define rtn with p begin return p end\ndefine mac 5\nassign vr 6\n'
                  'assign v "{0}"\nprint v\ndefine m "{0}"\nprint m\nprint "{0}"\n').format(sv)
        res = runimpl.run_script(script, [])
        chk.count()
        outs = [e[1] for e in res.events if e[0] == 'O'] if res.compiled else None
        if outs != [sv, sv, sv] or res.fault is not None:
            chk.violation('string-content-not-preserved',
                          'string {!r}: {}'.format(sv, ('rejected: ' + res.errors.strip()[:80])
                                                   if not res.compiled else 'printed {!r} (fault {})'.format(outs, res.fault)),
                          {'script': script})
        else:
            chk.nontrivial_case('str:' + sv)
        lex_texts.append('print "{}" set "{}" zone 1'.format(sv, sv))
    # a string is a value wherever a value may stand, also as the argument AFTER another argument
    # (a negation, a negative number, a name, a braced expression or another string): what the
    # string says — an operator, say — must not make it part of the argument before it
    arg_templates = [
        'define show with flag label begin print flag println label end\nassign a 1\n[show not a "{S}"]\n',
        'define show with flag label begin print flag println label end\nassign a 1\nshow not a "{S}"\n',
        'define show with flag label begin print flag println label end\nassign a 1\nshow a "{S}"\n',
        'define show with flag label begin print flag println label end\nassign a 1\nshow -5 "{S}"\n',
        'define show with flag label begin print flag println label end\nshow 5 "{S}"\n',
        'define show with flag label begin print flag println label end\nshow {{2 * 3}} "{S}"\n',
        'define show with flag label begin print flag println label end\nshow "{S}" "{S}"\n',
        'define show with flag label begin print flag println label end\nshow [round 2.5] "{S}"\n',
        'assign a 1 assign b 0\nprintf "{{}} {{}} {{}}" not a "{S}" not b\n',
        'assign a 1\nprintf "{{}} {{}} {{}}" a "{S}" -5\n',
        'assign a 1\nprint a print "{S}" print {{not a}} print "{S}" println -5\n',
        'assign a 1 assign s "{S}"\nprint {{not a}} print s\n',
    ]
    arg_strings = ['and', 'or', 'not', '+', '-', '*', '/', '%', '^', '<', '>', '<=', '>=', '==', '!=',
                   '(', ')', '{', '}', '[', ']', 'And', 'x', '&', '+ ', '=', '#', 'hue', 'end', 'begin',
                   'with', 'a', 'show', '5', '-5', '12:30', ''] + strings[:12]
    for tpl in arg_templates:
        ref = runimpl.run_script(tpl.format(S='QQ'), [])
        ref_outs = [e[1] for e in ref.events if e[0] == 'O'] if ref.compiled else None
        chk.count()
        if ref_outs is None or ref.fault is not None:
            chk.violation('string-content-not-preserved', 'argument template rejected: ' +
                          (ref.errors.strip()[:100] if not ref.compiled else str(ref.fault)),
                          {'script': tpl.format(S='QQ')})
            continue
        for sv in arg_strings:
            if '{}' in tpl.replace('{{}}', '') and False:
                continue
            script = tpl.format(S=sv)
            res = runimpl.run_script(script, [])
            stats['strings_as_arguments'] = stats.get('strings_as_arguments', 0) + 1
            chk.count()
            outs = [e[1] for e in res.events if e[0] == 'O'] if res.compiled else None
            want = [o.replace('QQ', sv) if isinstance(o, str) else o for o in ref_outs]
            if outs != want or res.fault is not None:
                chk.violation('string-content-not-preserved',
                              'string {!r} as an argument after another argument: {}'.format(
                                  sv, ('rejected: ' + res.errors.strip()[:80]) if not res.compiled
                                  else 'printed {!r} instead of {!r} (fault {})'.format(outs, want, res.fault)),
                              {'script': script})
            else:
                chk.nontrivial_case('argstr:' + str(arg_templates.index(tpl)) + ':' + sv)
            lex_texts.append(script.replace('\n', ' '))
    # two strings on one line, the first ending in a backslash (the lexer's undocumented \" escape)
    res = runimpl.run_script('print "a\\" print "b"\n', [])
    chk.count()
    outs = [e[1] for e in res.events if e[0] == 'O'] if res.compiled else None
    if outs != ['a\\', 'b']:
        chk.violation('string-ending-in-backslash-before-another-string',
                      'print "a\\" print "b" on one line: {}'.format(
                          'rejected: ' + res.errors.strip()[:80] if not res.compiled else outs),
                      {'script': 'print "a\\" print "b"'})
    # ---- 4. tie: the lexer model on the same texts
    from bardolph.parser.lex import Lex
    # the model's white space is ASCII white space; Python's \s also takes other Unicode
    # spaces (recorded assumption) — such texts are left to the oracle above
    uni_ws = set('\x1c\x1d\x1e\x1f\x85\xa0\u1680\u2028\u2029\u202f\u205f\u3000') | \
        {chr(c) for c in range(0x2000, 0x200b)}
    # the lexer's escaped quotation mark at the start, in the middle and at the end of a string
    lex_texts += ['println "\\"hi\\""', 'print "say \\"hi\\" now" hue 5', 'assign s "\\""', 'println "\\"\\""',
                  'printf "name=\\"{}\\"" 5', 'define m "a\\"b" print m', 'print "" print "\\"" # c']
    lex_texts = [t for t in lex_texts if not (set(t) & uni_ws)]
    answers = chk.driver.ask_many([('lex.tokens', [t]) for t in lex_texts])
    stats['lex_requests'] = len(lex_texts)
    for text, a in zip(lex_texts, answers):
        impl = [(tok.token_type.name, str(tok.content), tok.line_number)
                for tok in Lex(text).tokens()][:-1]
        model = []
        if a:
            for item in a.split('\x1e'):
                ty, c, ln = item.split('\x1f')
                model.append((ty, vmwire._unesc_out(c), int(ln)))
        if impl != model:
            stats['lex_mismatch'] += 1
            chk.disagreement('lex.tokens', {'text': text[:200]}, str(impl)[:200], str(model)[:200])
    # ---- 5. tie: the parser model ParseTok on a sample of the same re-laid-out texts — model and
    # real parser must compile each layout to the same program (or reject it with the same messages)
    import parsetok_check as ptc
    from bardolph.parser.parse import Parser
    pt_texts = [t for t in lex_texts if not ptc.outside_lexer_model(t)]
    pt_texts = rng.sample(pt_texts, min(len(pt_texts), 3000 if chk.thorough else 500))
    pt_answers = ptc.ask_parallel([('parse.text', [t]) for t in pt_texts])
    chk.driver.lines += len(pt_texts)
    stats['parse_text_requests'] = len(pt_texts)
    stats['parse_text_mismatch'] = 0
    for text, a in zip(pt_texts, pt_answers):
        im = ptc.impl_outcome(Parser, text)
        mo = ptc.model_outcome(a)
        if not ptc.same(im, mo):
            stats['parse_text_mismatch'] += 1
            chk.disagreement('parse.text', {'text': text[:300]}, ptc.show(im)[:400], ptc.show(mo)[:400])
    chk.coverage['distribution'] = stats
    chk.coverage['rule'] = (
        'generated scripts re-laid-out four ways (random spaces/tabs/line breaks/comments; no '
        'white space next to operators, braces, brackets; H/S/B/K abbreviations; all together), with '
        'braces round single values and brackets round call statements, compiled by the real '
        'compiler and compared instruction by instruction; identifiers (all of length 1-2, random '
        'to length 8, every case/affix variant of every keyword, register word and internal token '
        'class name) used as variable, macro, parameter and routine name; strings over all '
        'printable characters; non-trivial = distinct script / identifier / string that behaved')
    chk.assumptions += ['the lexer model treats only ASCII white space as white space; texts with '
                        'other Unicode spaces are checked by the oracle only',
                        'the documented lower-case keywords are the keyword list regenerated from '
                        'token.py minus the two undocumented ones (breakpoint, not), which are a '
                        'known finding', 'names of documented built-in functions are not tried as '
                        'variable names']
    if chk.thorough:
        chk.leanchecker()
    chk.finish()


if __name__ == '__main__':
    run_check(main)
