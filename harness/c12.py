#!/usr/bin/env python3
"""C12 — device faults and wrong-type targets never abort a script or disturb others.

Generated scripts x light populations x fault scripts run through the repository's real
`ScriptJob` / `Machine` / `LightSet` / `LifxLanApi` / `lifx_lan_light` wrappers on the
simulated network (`simnet.py`).

Oracle (written from the property text; decides violations):
 1. nothing escapes `Machine.run`: the marker printed by the script's last statement reaches
    the output and the VM's catch-all (`logging.error('Machine stopped due to …')`) is silent;
 2. every request (one call of a wrapper method, delimited by instrumenting the wrapper
    classes from outside) makes at most three attempts, stops at the first answered one, and
    an abandoned request is followed by a `Giving up` log entry;
 3. every healthy device receives exactly what it receives in the fault-free run of the same
    script, every faulty device a subsequence of it; the fault-free run itself issues what a
    reading of the script says (unknown names and capability mismatches contribute nothing);
 4. `LightSet.discover()` returns True or False and never raises, whatever fails at whichever
    construction step; a failed discovery leaves every getter unchanged; the refresh thread's
    loop survives failed discoveries.

Correspondence: the same cases go to the Lean model (`fl.run`, `fl.disc`, `fl.tries`,
`fl.decorated`); outcome, final colour registers and the complete attempt trace (label,
request, payload, outcome) are compared.
"""
import itertools
import json
import logging
import os
import sys

sys.path.insert(0, os.path.dirname(os.path.abspath(__file__)))
from core import Check, run_check, ROOT, InfraError  # noqa: E402
import env  # noqa: E402,F401
import simnet  # noqa: E402
from simnet import FaultScript  # noqa: E402

MAX_ATTEMPTS = 3            # "attempted at most three times" — the property text
MARKER = 'C12-END'

NET_METHOD = {              # wrapper method -> request on the (simulated) wire
    'get_color': 'get_color', 'set_color': 'set_color', 'get_power': 'get_power',
    'set_power': 'set_power', 'get_zone_colors': 'get_color_zones',
    'set_zone_colors': 'set_zone_color', '_get_size': 'get_device_chain',
    'set_matrix': 'set_tile_state', 'get_matrix': 'get_tile_state',
    'set_color_all_lights': 'set_color_all_lights',
    'set_power_all_lights': 'set_power_all_lights'}

PATTERNS = ['1', '11', '111', '1111', '*']          # fail k times then answer / never answer
MIXED = ['', '1', '11', '111', '1111', '*', '101', '011', '1101', '110110', '1110111', '01', '0111']


# ------------------------------------------------------------------ palette and populations
def palette(i):
    """raw colour number i; 0 is the all-zero colour (initial registers, clamped fail value)"""
    if i == 0:
        return [0, 0, 0, 0]
    return [1000 * i, 20000 + i, 30000 + i, 2500 + i]


LOGICAL = {i: [10 * i, 10 + i, 20 + i, 2500 + 100 * i] for i in range(1, 40)}
COLOUR_ID = {tuple(palette(i)): i for i in range(0, 40)}

BASE_POP = [
    ('Top', 'plain', 'Pole', 'Home'), ('Middle', 'plain', 'Pole', 'Home'),
    ('Strip', 'multizone', 'Pole', 'Home'), ('Tile', 'matrix', 'Desk', 'Home'),
    ('Lamp', 'plain', 'Desk', 'Shed'), ('Beam', 'multizone', 'Desk', 'Shed')]
NAMES = ['Top', 'Middle', 'Bottom', 'Lamp', 'Strip', 'Beam', 'Tile', 'Candle', 'Table Lamp', 'Z 9']
GROUPS = ['Pole', 'Desk', 'Solo']
LOCATIONS = ['Home', 'Shed']


def make_pop(rows):
    """rows: (label, kind, group, location) -> simnet population; device i reports colour i+20"""
    pop = []
    for i, (label, kind, group, location) in enumerate(rows):
        spec = {'label': label, 'kind': kind, 'group': group, 'location': location,
                'color': palette(20 + i), 'power': 0, 'colour_id': 20 + i}
        if kind == 'multizone':
            spec['zones'] = [palette(20 + i)] * 8
        if kind == 'matrix':
            spec['height'], spec['width'] = 3, 4
        pop.append(spec)
    return pop


def gen_pop(rng):
    n = rng.randint(2, 6)
    labels = rng.sample(NAMES, n)
    groups = GROUPS[:rng.randint(1, 3)]
    locs = LOCATIONS[:rng.randint(1, 2)]
    return make_pop([(l, rng.choice(['plain', 'plain', 'multizone', 'matrix']),
                      rng.choice(groups), rng.choice(locs)) for l in labels])


# ------------------------------------------------------------------ scripts
# statements: ('reg', id) ('duration', n) ('set', [operand…]) ('on', […]) ('off', […]) ('get', name)
# operands:   ('all',) ('light', n) ('group', n) ('location', n) ('zone', n, a, b|None)
#             ('rc', n, rows|None, cols|None)  ('block', n, [('stage', rows, cols)|('reg', id)…])
def render_range(word, rng_):
    if rng_ is None:
        return ''
    a, b = rng_
    return ' {} {}'.format(word, a) + ('' if b is None else ' {}'.format(b))


def render_reg(i, units):
    c = palette(i) if units == 'raw' else LOGICAL[i]
    return 'hue {} saturation {} brightness {} kelvin {}'.format(*c)


def render_operand(op, units):
    k = op[0]
    if k == 'all':
        return 'all'
    if k == 'light':
        return '"{}"'.format(op[1])
    if k == 'group':
        return 'group "{}"'.format(op[1])
    if k == 'location':
        return 'location "{}"'.format(op[1])
    if k == 'zone':
        return '"{}" zone {}{}'.format(op[1], op[2], '' if op[3] is None else ' {}'.format(op[3]))
    if k == 'rc':
        return '"{}"{}{}'.format(op[1], render_range('row', op[2]), render_range('column', op[3]))
    if k == 'block':
        body = []
        for item in op[2]:
            if item[0] == 'reg':
                body.append(render_reg(item[1], units))
            else:
                body.append('stage{}{}'.format(render_range('row', item[1]),
                                               render_range('column', item[2])))
        return '"{}" begin {} end'.format(op[1], ' '.join(body))
    raise ValueError(op)


def render(script, units):
    lines = ['units raw'] if units == 'raw' else []
    for st in script:
        k = st[0]
        if k == 'reg':
            lines.append(render_reg(st[1], units))
        elif k == 'duration':
            lines.append('duration {}'.format(st[1]))
        elif k in ('set', 'on', 'off'):
            lines.append(k + ' ' + ' and '.join(render_operand(o, units) for o in st[1]))
        elif k == 'get':
            lines.append('get "{}"'.format(st[1]))
        else:
            raise ValueError(st)
    lines.append('print "{}"'.format(MARKER))
    return '\n'.join(lines) + '\n'


def model_cmds(script):
    out = []
    for st in script:
        k = st[0]
        if k == 'reg':
            out.append('reg|{}'.format(st[1]))
        elif k == 'get':
            out.append('get|{}'.format(st[1]))
        elif k == 'set':
            for op in st[1]:
                o = op[0]
                if o == 'all':
                    out.append('ca')
                elif o == 'light':
                    out.append('cl|' + op[1])
                elif o == 'group':
                    out.append('cg|' + op[1])
                elif o == 'location':
                    out.append('cL|' + op[1])
                elif o == 'zone':
                    out.append('cz|' + op[1])
                elif o == 'rc':
                    out += ['mx|' + op[1], 'cm|' + op[1]]
                elif o == 'block':
                    out.append('mx|' + op[1])
                    out += ['reg|{}'.format(i[1]) for i in op[2] if i[0] == 'reg']
                    out.append('cm|' + op[1])
        elif k in ('on', 'off'):
            b = '1' if k == 'on' else '0'
            for op in st[1]:
                o = op[0]
                if o == 'all':
                    out.append('pa|' + b)
                elif o == 'light':
                    out.append('pl|{}|{}'.format(op[1], b))
                elif o == 'group':
                    out.append('pg|{}|{}'.format(op[1], b))
                elif o == 'location':
                    out.append('pL|{}|{}'.format(op[1], b))
    return out


def has_get(script):
    return any(st[0] == 'get' for st in script)


def expected_fault_free(script, pop):
    """What a reading of the script says the network sees when nothing fails:
    [(label, request, colour id | power | None)].  Written from the manual: a light command
    goes to that light, a group/location command to each member in name order, `all` is one
    broadcast; unknown names, zone commands to lights without zones, row/column commands to
    lights without a matrix and `get` on a multi-colour light contribute nothing."""
    by_label = {d['label']: d for d in pop}
    colour = {d['label']: d['colour_id'] for d in pop}
    reg = 0
    out = []

    def members(field, name):
        return sorted(d['label'] for d in pop if d[field] == name)
    for st in script:
        k = st[0]
        if k == 'reg':
            reg = st[1]
        elif k == 'get':
            d = by_label.get(st[1])
            if d is not None and d['kind'] == 'plain':
                out.append((st[1], 'get_color', None))
                reg = colour[st[1]]
        elif k == 'set':
            for op in st[1]:
                o = op[0]
                if o == 'all':
                    out.append(('*', 'set_color_all_lights', reg))
                    for l in colour:
                        colour[l] = reg
                elif o in ('light', 'group', 'location'):
                    if o == 'light':
                        targets = [op[1]] if op[1] in by_label else []
                    else:
                        targets = members(o, op[1])
                    for l in targets:
                        out.append((l, 'set_color', reg))
                        colour[l] = reg
                elif o == 'zone':
                    d = by_label.get(op[1])
                    if d is not None and d['kind'] == 'multizone':
                        out.append((op[1], 'set_zone_color', reg))
                elif o in ('rc', 'block'):
                    if o == 'block':
                        for item in op[2]:
                            if item[0] == 'reg':
                                reg = item[1]
                    d = by_label.get(op[1])
                    if d is not None and d['kind'] == 'matrix':
                        out.append((op[1], 'set_tile_state', None))
        elif k in ('on', 'off'):
            p = 65535 if k == 'on' else 0
            for op in st[1]:
                o = op[0]
                if o == 'all':
                    out.append(('*', 'set_power_all_lights', p))
                elif o == 'light':
                    if op[1] in by_label:
                        out.append((op[1], 'set_power', p))
                else:
                    for l in members(o, op[1]):
                        out.append((l, 'set_power', p))
    return out


def gen_range(rng, hi):
    a = rng.choice([rng.randint(0, hi), hi]) if hi > 10 else rng.randint(0, hi)
    return (a, rng.choice([None, None, rng.randint(a, hi)]))


def gen_operand(rng, pop, verb, alone):
    labels = [d['label'] for d in pop]
    light = lambda: rng.choice(labels + ['Nope']) if rng.random() < 0.85 else 'Nope'  # noqa: E731
    group = lambda: rng.choice([d['group'] for d in pop] + ['Nogroup'])  # noqa: E731
    loc = lambda: rng.choice([d['location'] for d in pop] + ['Nowhere'])  # noqa: E731
    kinds = ['light', 'light', 'group', 'location']
    if alone:
        kinds.append('all')
    if verb == 'set':
        kinds += ['zone', 'zone', 'rc', 'block']
    k = rng.choice(kinds)
    # (a row/column command to anything but a matrix light makes the VM build a 255 x 255
    # matrix, 20 ms each; keep their share moderate)
    tiles = [d['label'] for d in pop if d['kind'] == 'matrix']
    mlight = (lambda: rng.choice(tiles)) if tiles and rng.random() < 0.6 else light
    if k == 'all':
        return ('all',)
    if k == 'light':
        return ('light', light())
    if k == 'group':
        return ('group', group())
    if k == 'location':
        return ('location', loc())
    if k == 'zone':
        # also a group's name where a light's is expected
        return ('zone', light() if rng.random() < 0.9 else group(),) + gen_range(rng, 7)
    target = mlight()
    # rows and columns within the extent for a matrix light; for every other target (no matrix
    # capability, unknown name) anything goes: the command is skipped whatever it addresses
    hi_r, hi_c = (2, 3) if target in tiles else rng.choice([(2, 3), (20, 40), (254, 254), (255, 300), (5000, 70000)])
    if k == 'rc':
        rows = gen_range(rng, hi_r) if rng.random() < 0.7 else None
        cols = gen_range(rng, hi_c) if (rows is None or rng.random() < 0.6) else None
        return ('rc', target, rows, cols)
    items = []
    for _ in range(rng.randint(1, 3)):
        if rng.random() < 0.3:
            items.append(('reg', rng.randint(1, 12)))
        rows = gen_range(rng, hi_r) if rng.random() < 0.7 else None
        cols = gen_range(rng, hi_c) if (rows is None or rng.random() < 0.6) else None
        items.append(('stage', rows, cols))
    return ('block', target, items)


def gen_script(rng, pop, with_get):
    script = []
    for _ in range(rng.randint(1, 7)):
        r = rng.random()
        if r < 0.25:
            script.append(('reg', rng.randint(1, 12)))
        elif r < 0.30:
            script.append(('duration', rng.choice([0, 1, 250, 2000])))
        elif r < 0.40 and with_get:
            script.append(('get', rng.choice([d['label'] for d in pop] + ['Nope'])))
        else:
            verb = rng.choice(['set', 'set', 'set', 'on', 'off'])
            n = rng.choice([1, 1, 1, 2, 3])
            if n == 1:
                ops = [gen_operand(rng, pop, verb, True)]
            else:
                ops = [gen_operand(rng, pop, verb, False) for _ in range(n)]
            script.append((verb, ops))
    return script


def atomic_scripts():
    """every command form x every kind of target (right class, wrong class, unknown), each
    issued twice so that a fault pattern is seen running across two requests"""
    out = []
    lights = ['Top', 'Strip', 'Tile', 'Nope']
    for n in lights:
        out.append([('reg', 3), ('set', [('light', n)]), ('reg', 4), ('set', [('light', n)])])
        out.append([('on', [('light', n)]), ('off', [('light', n)])])
        out.append([('reg', 3), ('set', [('zone', n, 1, None)]), ('set', [('zone', n, 2, 5)])])
        out.append([('reg', 3), ('set', [('rc', n, (1, None), None)]),
                    ('set', [('rc', n, (0, 1), (1, 2))]), ('set', [('rc', n, None, (2, None))])])
        out.append([('reg', 3), ('set', [('block', n, [('stage', (0, None), (1, 2)), ('reg', 5),
                                                       ('stage', (1, None), None)])]),
                    ('set', [('block', n, [('stage', None, (0, None))])])])
        out.append([('get', n), ('set', [('light', 'Lamp')]), ('get', n)])
    for g in ['Pole', 'Desk', 'Nogroup']:
        out.append([('reg', 6), ('set', [('group', g)]), ('off', [('group', g)]),
                    ('set', [('group', g)])])
    for l in ['Home', 'Shed', 'Nowhere']:
        out.append([('reg', 7), ('set', [('location', l)]), ('on', [('location', l)]),
                    ('on', [('location', l)])])
    out.append([('reg', 8), ('set', [('all',)]), ('on', [('all',)]), ('set', [('all',)]),
                ('off', [('all',)])])
    out.append([('reg', 9), ('set', [('light', 'Top'), ('light', 'Nope'), ('group', 'Desk'),
                                     ('zone', 'Top', 1, None), ('zone', 'Beam', 0, 3),
                                     ('rc', 'Strip', (0, None), None), ('rc', 'Tile', (0, None), None),
                                     ('location', 'Shed')]),
                ('on', [('light', 'Nope'), ('group', 'Pole'), ('light', 'Tile')])])
    out.append([('reg', 2), ('set', [('light', 'Top')]), ('get', 'Top'), ('set', [('light', 'Lamp')]),
                ('get', 'Strip'), ('get', 'Tile'), ('get', 'Nope'), ('set', [('light', 'Middle')])])
    return out


INDIRECT_SCRIPTS = [
    'hue 120 repeat all as x begin set x end',
    'repeat in group "Nogroup" as x begin set x end on all',
    'repeat in group "Pole" and "Nope" and location "Nowhere" and "Tile" as x begin on x set x end',
    'repeat group as g begin set group g end repeat location as l begin off location l end',
    'assign x "Nope" set x set x zone 1 set x row 1 on x assign x "Lamp" set x off x',
    'define f with y begin set y zone 2 set y row 0 on y end f "Top" f "Strip" f "Tile" f "Nope"',
    'repeat all as x with z from 0 to 3 begin set x zone z end',
    'define t "Tile" define s "Strip" set t zone 1 and s row 1 and t column 2 and s zone 0 7',
    # loops over unknown groups / locations (nothing to visit) with every kind of accompanying range
    'repeat in group "Nogroup" as x with h cycle begin hue h set x end on all',
    'repeat in location "Nowhere" as x with h cycle 90 begin hue h set x end on all',
    'repeat in group "Nogroup" and location "Nowhere" as x with b from 10 to 90 begin brightness b set x end off all',
    'units raw repeat in group "Nogroup" as x with h cycle begin hue h set x end units logical on all',
    'repeat in group "Nogroup" and "Top" as x with h cycle begin hue h set x end on all',
]


# ------------------------------------------------------------------ running on the real code
class Recorder:
    """what the oracle needs beyond the network log: wrapper-level requests, log entries,
    exceptions seen by the VM's catch-all"""

    def __init__(self):
        self.requests = []
        self.warnings = []
        self.errors = []

    def clear(self):
        del self.requests[:]
        del self.warnings[:]
        del self.errors[:]


REC = Recorder()


def instrument():
    """delimit requests: wrap every request-issuing method of the wrapper classes (from the
    outside, whatever decorators they carry) and capture log entries"""
    from bardolph.controller import lifx_lan_api, lifx_lan_light

    def wrap(cls, meth, label_of):
        inner = cls.__dict__[meth]

        def outer(self, *args, **kwargs):
            net = simnet.SimLan.net
            rec = {'cls': cls.__name__, 'meth': meth, 'label': label_of(self),
                   'start': len(net.events), 'end': None, 'result': None}
            REC.requests.append(rec)
            try:
                value = inner(self, *args, **kwargs)
                rec['result'] = 'returned'
                return value
            except BaseException as ex:
                rec['result'] = 'raised:' + type(ex).__name__
                raise
            finally:
                rec['end'] = len(net.events)
        outer.__name__ = meth
        setattr(cls, meth, outer)

    for cls in (lifx_lan_light.Light, lifx_lan_light.MultizoneLight, lifx_lan_light.MatrixLight):
        for meth in list(cls.__dict__):
            if meth in NET_METHOD:
                wrap(cls, meth, lambda self: self.get_name())
    for meth in ('set_color_all_lights', 'set_power_all_lights'):
        wrap(lifx_lan_api.LifxLanApi, meth, lambda self: '*')

    def warning(msg, *args, **kwargs):
        REC.warnings.append(str(msg))

    def error(msg, *args, **kwargs):
        ex = sys.exc_info()[1]
        REC.errors.append((str(msg), type(ex).__name__ if ex is not None else None))
    logging.warning = warning
    logging.error = error


def fault_script(faults):
    seqs, always = {}, set()
    for (label, meth), pat in faults.items():
        if '*' in pat:
            always.add((label, meth))
        else:
            seqs[(label, meth)] = [c == '1' for c in pat]
    return FaultScript(faults=seqs, always=always)


def run_script(pop, text, faults):
    """-> dict(completed, escaped, errors, events, requests, warnings, reg)"""
    from bardolph.controller.script_job import ScriptJob
    net, ls, trace = simnet.install(pop)
    if net.discover_result is not True:
        raise AssertionError('fault-free discovery of the population failed')
    net.faults = fault_script(faults)
    net.clear_log()
    REC.clear()
    job = ScriptJob.from_string(text)
    if job.program is None:
        return {'compile_error': job.compile_errors}
    escaped = None
    try:
        job.execute()
    except BaseException as ex:  # noqa
        escaped = type(ex).__name__
    outs = [t[1] for t in trace if t[0] == 'out']
    return {'completed': MARKER in outs, 'escaped': escaped, 'errors': list(REC.errors),
            'events': list(net.events), 'requests': [dict(r) for r in REC.requests],
            'warnings': list(REC.warnings),
            'reg': list(job.get_machine_state().reg.get_color())}


def colour_id(c):
    return COLOUR_ID.get(tuple(min(65535, max(0, round(x))) for x in c), '?')


def canon_event(e, units):
    """(label, request, args, outcome) -> 'label|request|payload|ok'"""
    label, meth, args, outcome = e
    raw = units == 'raw'
    if meth in ('set_color', 'set_color_all_lights'):
        p = colour_id(args[0]) if raw else 'x'
    elif meth == 'set_zone_color':
        p = colour_id(args[2]) if raw else 'x'
    elif meth in ('set_power', 'set_power_all_lights'):
        p = 65535 if args[0] else 0
    elif meth == 'set_tile_state':
        p = 'x'
    else:
        p = 0
    return '{}|{}|{}|{}'.format(label, meth, p, outcome)


def canon_model_events(text, units):
    out = []
    for item in (text.split(';') if text else []):
        label, meth, p, outcome = item.split('|')
        if meth == 'set_tile_state' or (units != 'raw' and meth in (
                'set_color', 'set_color_all_lights', 'set_zone_color')):
            p = 'x'
        out.append('{}|{}|{}|{}'.format(label, meth, p, outcome))
    return out


def enc_devs(pop):
    return ';'.join('{}|{}|{}|{}'.format(d['label'], d['kind'], d['group'], d['location'])
                    for d in sorted(pop, key=lambda d: d['label']))


def enc_faults(faults):
    return ';'.join('{}|{}|{}'.format(l, m, p) for (l, m), p in sorted(faults.items()))


def is_subsequence(small, big):
    it = iter(big)
    return all(any(x == y for y in it) for x in small)


# ------------------------------------------------------------------ the oracle for one run
def check_requests(res):
    """oracle 2 on the wrapper-level requests of one run -> list of (signature, what)"""
    bad = []
    events = res['events']
    abandoned = 0
    for r in res['requests']:
        nm = NET_METHOD[r['meth']]
        att = [e for e in events[r['start']:r['end']] if e[0] == r['label'] and e[1] == nm]
        outcomes = [e[3] for e in att]
        if len(att) > MAX_ATTEMPTS:
            bad.append(('attempts-exceed-three',
                        '{}.{} on "{}" made {} attempts'.format(r['cls'], r['meth'], r['label'],
                                                                 len(att))))
        if 'ok' in outcomes[:-1]:
            bad.append(('attempt-after-answer',
                        '{}.{} on "{}" tried again after an answer'.format(
                            r['cls'], r['meth'], r['label'])))
        if r['result'] != 'returned':
            bad.append(('request-raises',
                        '{}.{} on "{}" {}'.format(r['cls'], r['meth'], r['label'], r['result'])))
        if att and all(o == 'fail' for o in outcomes):
            abandoned += 1
    giving_up = sum(1 for w in res['warnings'] if w.startswith('Giving up'))
    if abandoned != giving_up and not bad:
        bad.append(('abandoned-without-log-entry',
                    '{} requests abandoned, {} "Giving up" log entries'.format(abandoned, giving_up)))
    return bad


def judge(case, base, res):
    """-> list of (signature, what); case: dict(pop, script, units, faults, text)"""
    bad = []
    if 'compile_error' in res:
        return [('generated-script-rejected', res['compile_error'])]
    stopped = [e for e in res['errors'] if e[0].startswith('Machine stopped')]
    if res['escaped'] or stopped or not res['completed']:
        kind = res['escaped'] or (stopped[0][1] if stopped else 'no-marker')
        why = 'faults' if case['faults'] else 'fault-free'
        bad.append(('script-aborted:{}:{}'.format(kind, why),
                    'script did not reach its last statement: {}'.format(
                        res['escaped'] or (stopped[0][0] if stopped else 'marker missing'))))
    bad += check_requests(res)
    if bad or base is None:
        return bad
    # oracle 3: healthy devices see the fault-free run, faulty ones a subsequence of it
    faulty = {l for (l, _m) in case['faults']}
    script = case['script']
    get_targets = {st[1] for st in script if st[0] == 'get'}
    comparable = not (get_targets & faulty) and not (get_targets and '*' in faulty)
    if not comparable:
        case['containment_skipped'] = True
        return bad
    labels = {e[0] for e in base['events']} | {e[0] for e in res['events']}
    for l in sorted(labels):
        mine = [e for e in res['events'] if e[0] == l]
        ref = [e for e in base['events'] if e[0] == l]
        if l not in faulty:
            if mine != ref:
                bad.append(('healthy-device-disturbed',
                            'device "{}" has no fault but received {} instead of {}'.format(
                                l, [(e[1], e[2]) for e in mine][:6], [(e[1], e[2]) for e in ref][:6])))
        else:
            delivered = [e for e in mine if e[3] == 'ok']
            if not is_subsequence(delivered, ref):
                bad.append(('faulty-device-gets-foreign-command',
                            'device "{}" received {} which is no part of the fault-free {}'.format(
                                l, [(e[1], e[2]) for e in delivered][:6],
                                [(e[1], e[2]) for e in ref][:6])))
    return bad


def judge_fault_free(case, res):
    """the fault-free run against a reading of the script"""
    bad = judge(case, None, res)
    if bad:
        return bad
    want = expected_fault_free(case['script'], case['pop'])
    got = []
    for e in res['events']:
        c = canon_event(e, case['units']).split('|')
        p = c[2]
        got.append((c[0], c[1], None if p in ('x',) or c[1] == 'get_color' else
                    (int(p) if p != '?' else '?')))
    if case['units'] != 'raw':
        want = [(l, m, None if m in ('set_color', 'set_color_all_lights', 'set_zone_color') else p)
                for l, m, p in want]
    want = [(l, m, None if m in ('set_tile_state', 'get_color') else p) for l, m, p in want]
    if got != want:
        i = next((i for i in range(min(len(got), len(want))) if got[i] != want[i]),
                 min(len(got), len(want)))
        bad.append(('fault-free-run-differs-from-script',
                    'request {}: network saw {} where the script says {}'.format(
                        i, got[i] if i < len(got) else 'nothing',
                        want[i] if i < len(want) else 'nothing')))
    return bad


# ------------------------------------------------------------------ shrinking
def shrink_case(case, signature, run_fn):
    """greedy: drop statements, operands and fault keys while the same signature persists"""
    def fails(c):
        try:
            return signature in [s for s, _ in run_fn(c)]
        except Exception:  # noqa
            return False
    best = case
    changed = True
    rounds = 0
    while changed and rounds < 6:
        changed = False
        rounds += 1
        for i in range(len(best['script']) - 1, -1, -1):
            cand = dict(best, script=best['script'][:i] + best['script'][i + 1:])
            if cand['script'] and fails(cand):
                best, changed = cand, True
        for i, st in enumerate(best['script']):
            if st[0] in ('set', 'on', 'off') and len(st[1]) > 1:
                for j in range(len(st[1]) - 1, -1, -1):
                    ops = st[1][:j] + st[1][j + 1:]
                    if not ops:
                        continue
                    cand = dict(best, script=best['script'][:i] + [(st[0], ops)] + best['script'][i + 1:])
                    if fails(cand):
                        best, changed = cand, True
                        st = best['script'][i]
        for key in sorted(best['faults']):
            f = dict(best['faults'])
            del f[key]
            cand = dict(best, faults=f)
            if fails(cand):
                best, changed = cand, True
    return best


def case_replay(case):
    return {'kind': 'script', 'population': [
        {k: v for k, v in d.items() if k != 'colour_id'} for d in case['pop']],
        'units': case['units'], 'script': case['script'],
        'script_text': render(case['script'], case['units']),
        'faults': {'{}|{}'.format(l, m): p for (l, m), p in sorted(case['faults'].items())}}


# ------------------------------------------------------------------ discovery
def getters(ls):
    return {
        'names': list(ls.get_light_names()),
        'lights': sorted((l.get_name(), type(l).__name__, l.get_group(), l.get_location(), id(l))
                         for l in ls.get_lights()),
        'count': ls.get_light_count(),
        'groups': {g: list(ls.get_group_lights(g)) for g in ls.get_group_names()},
        'locations': {g: list(ls.get_location_lights(g)) for g in ls.get_location_names()},
        'by_name': {n: id(ls.get_light(n)) for n in ls.get_light_names()},
    }


def discovery_case(old_rows, new_rows, vanished, faults):
    """discover `old_rows` without faults, then a second discovery against `new_rows` (minus
    `vanished`) under `faults`.  -> dict(result, raised, before, after, events, counters…)"""
    pop_old = make_pop(old_rows)
    net, ls, trace = simnet.install(pop_old)
    if net.discover_result is not True:
        raise AssertionError('fault-free discovery failed')
    before = getters(ls)
    counters = (ls.get_successful_discovers(), ls.get_failed_discovers())
    # the network changes: same Net object, new devices
    net.devices = [simnet.SimDevice(net, spec) for spec in make_pop(new_rows)]
    net.vanished = set(vanished)
    net.faults = fault_script(faults)
    net.clear_log()
    REC.clear()
    raised = None
    result = None
    try:
        result = ls.discover()
    except BaseException as ex:  # noqa
        raised = type(ex).__name__
    return {'result': result, 'raised': raised, 'before': before, 'after': getters(ls),
            'counters_before': counters,
            'counters_after': (ls.get_successful_discovers(), ls.get_failed_discovers()),
            'events': list(net.events), 'requests': [dict(r) for r in REC.requests],
            'warnings': list(REC.warnings), 'errors': list(REC.errors), 'light_set': ls}


def judge_discovery(res, new_rows, vanished):
    bad = []
    if res['raised'] is not None:
        bad.append(('discover-raises:' + res['raised'],
                    'LightSet.discover() raised ' + res['raised']))
        # the directory must still be what it was
        if res['after'] != res['before']:
            bad.append(('raised-discovery-changed-directory', 'directory changed'))
        return bad
    if res['result'] is not True and res['result'] is not False:
        bad.append(('discover-returns-non-boolean', repr(res['result'])))
    bad += check_requests(res)
    s0, f0 = res['counters_before']
    s1, f1 = res['counters_after']
    if res['result'] is False:
        if res['after'] != res['before']:
            bad.append(('failed-discovery-changed-directory',
                        'a failed discovery changed the getters: {} -> {}'.format(
                            res['before']['names'], res['after']['names'])))
        if (s1, f1) != (s0, f0 + 1):
            bad.append(('failed-discovery-miscounted', '{} -> {}'.format((s0, f0), (s1, f1))))
        if not (res['warnings'] or res['errors']):
            bad.append(('failed-discovery-without-log-entry', 'nothing was logged'))
    elif res['result'] is True:
        if (s1, f1) != (s0 + 1, f0):
            bad.append(('successful-discovery-miscounted', '{} -> {}'.format((s0, f0), (s1, f1))))
        # every light in the directory is usable: it knows its zones / its size
        for l in res['light_set'].get_lights():
            if hasattr(l, 'get_num_zones') and not isinstance(l.get_num_zones(), int):
                bad.append(('directory-holds-unusable-light',
                            'multizone light "{}" has {} zones'.format(l.get_name(), l.get_num_zones())))
            if hasattr(l, 'get_height') and not (isinstance(l.get_height(), int)
                                                 and isinstance(l.get_width(), int)):
                bad.append(('directory-holds-unusable-light',
                            'matrix light "{}" entered the directory with size {}x{}'.format(
                                l.get_name(), l.get_height(), l.get_width())))
        seen = {r[0] for r in new_rows if r[0] not in vanished}
        if not seen <= set(res['after']['names']):
            bad.append(('successful-discovery-lost-a-light',
                        '{} missing'.format(sorted(seen - set(res['after']['names'])))))
        if not set(res['before']['names']) <= set(res['after']['names']):
            bad.append(('discovery-dropped-known-light', '{} -> {}'.format(
                res['before']['names'], res['after']['names'])))
    return bad


def canon_dir(ls):
    kinds = {'Light': 'plain', 'MultizoneLight': 'multizone', 'MatrixLight': 'matrix'}
    return ';'.join('{}|{}|{}|{}'.format(l.get_name(), kinds[type(l).__name__], l.get_group(),
                                         l.get_location())
                    for l in sorted(ls.get_lights(), key=lambda l: l.get_name()))


def construction_keys(rows):
    keys = [('*', 'get_lights')]
    for label, kind, _g, _l in rows:
        keys.append((label, 'get_product_features'))
        if kind == 'multizone':
            keys.append((label, 'get_color_zones'))
        if kind == 'matrix':
            keys.append((label, 'get_device_chain'))
    return keys


# ------------------------------------------------------------------ main
def main():
    chk = Check('C12')
    chk.lean_phase(sections={'Retry'})
    instrument()
    rng = chk.rng
    stats = {'script_runs': 0, 'fault_free_runs': 0, 'containment_compared': 0,
             'containment_skipped_get': 0, 'attempts_checked': 0, 'abandoned_requests': 0,
             'discovery_runs': 0, 'discovery_failed': 0, 'discovery_ok': 0}
    requests = []     # (cmd, args, impl answer, case replay)
    kinds_hit = {}

    def run_and_judge(case):
        text = render(case['script'], case['units'])
        base = run_script(case['pop'], text, {})
        bad = judge_fault_free(case, base)
        if bad or not case['faults']:
            return bad
        res = run_script(case['pop'], text, case['faults'])
        return judge(case, base, res)

    def report(case, sig, what):
        # shrink only the first case of each defect class; later ones are counted
        if any(v['signature'] == sig for v in chk.violations):
            chk.violation(sig, what, None)
        else:
            small = shrink_case(case, sig, run_and_judge)
            chk.violation(sig, what, case_replay(small))

    def do_case(case, base_cache):
        text = render(case['script'], case['units'])
        key = (id(case['pop']), text)
        if key not in base_cache:
            base = run_script(case['pop'], text, {})
            stats['fault_free_runs'] += 1
            chk.count()
            bad0 = judge_fault_free(dict(case, faults={}), base)
            base_cache[key] = (base, bad0)
            if not bad0:
                add_model_request(case, {}, base)
            for sig, what in bad0:
                report(dict(case, faults={}), sig, what)
        base, bad0 = base_cache[key]
        if bad0 or not case['faults']:
            return
        res = run_script(case['pop'], text, case['faults'])
        stats['script_runs'] += 1
        chk.count()
        bad = judge(case, base, res)
        if 'compile_error' not in res:
            stats['attempts_checked'] += len(res['requests'])
            stats['abandoned_requests'] += sum(1 for w in res['warnings'] if w.startswith('Giving up'))
        if case.get('containment_skipped'):
            stats['containment_skipped_get'] += 1
        elif not bad:
            stats['containment_compared'] += 1
        for sig, what in bad:
            report(case, sig, what)
        if not bad:
            add_model_request(case, case['faults'], res)
            if any(e[3] == 'fail' for e in res['events']):
                chk.nontrivial_case((enc_devs(case['pop']), text, enc_faults(case['faults'])))
            for st in case['script']:
                for op in (st[1] if st[0] in ('set', 'on', 'off') else [(st[0],)]):
                    kinds_hit[st[0] + ':' + op[0]] = kinds_hit.get(st[0] + ':' + op[0], 0) + 1

    def add_model_request(case, faults, res):
        units = case['units']
        colours = ';'.join('{}|{}'.format(d['label'], d['colour_id']) for d in case['pop'])
        impl = 'completed {} {}'.format(
            colour_id(res['reg']) if units == 'raw' else 'x',
            ';'.join(canon_event(e, units) for e in res['events']))
        requests.append(('fl.run', [enc_devs(case['pop']), enc_faults(faults), colours, '0',
                                    ';'.join(model_cmds(case['script']))], impl,
                         (units, case_replay(dict(case, faults=faults)))))

    import time as _time
    phase = {}
    t_phase = _time.time()

    def lap(name):
        nonlocal t_phase
        phase[name] = round(_time.time() - t_phase, 1)
        t_phase = _time.time()

    # ---- A. systematic: atomic scripts x (every subset of the devices involved, every key) x
    #         every prefix pattern up to and beyond the retry bound
    base_pop = make_pop(BASE_POP)
    cache = {}
    atoms = atomic_scripts()
    n_plans = 0
    for script in atoms:
        for units in ('raw', 'logical'):
            case0 = {'pop': base_pop, 'script': script, 'units': units, 'faults': {}}
            do_case(case0, cache)
            base, bad0 = cache[(id(base_pop), render(script, units))]
            if bad0 or units == 'logical' and not chk.thorough and rng.random() < 0.5:
                continue
            keys = sorted({(e[0], e[1]) for e in base['events']})
            labels = sorted({k[0] for k in keys})
            plans = []
            subsets = [s for n in range(1, len(labels) + 1) for s in itertools.combinations(labels, n)]
            if len(subsets) > 15 and not chk.thorough:
                subsets = [s for s in subsets if len(s) <= 2] + rng.sample(
                    [s for s in subsets if len(s) > 2], 6)
            for sub in subsets:
                for pat in PATTERNS:
                    plans.append({k: pat for k in keys if k[0] in sub})
            for k in keys:
                for pat in PATTERNS + ['101', '1101']:
                    plans.append({k: pat})
            for plan in plans:
                n_plans += 1
                do_case({'pop': base_pop, 'script': script, 'units': units, 'faults': plan}, cache)
    stats['atomic_scripts'] = len(atoms)
    stats['systematic_fault_plans'] = n_plans
    chk.sample({'script': render(atoms[3], 'raw'), 'faults': {'Top|set_tile_state': '*'},
                'population': [list(r) for r in BASE_POP]})

    lap('systematic')
    # ---- B. random scripts x random populations x random fault scripts
    n_random = 700 if not chk.thorough else 2500
    for i in range(n_random):
        pop = gen_pop(rng)
        with_get = rng.random() < 0.35
        script = gen_script(rng, pop, with_get)
        units = 'raw' if rng.random() < 0.7 else 'logical'
        cache_r = {}
        case0 = {'pop': pop, 'script': script, 'units': units, 'faults': {}}
        do_case(case0, cache_r)
        base, bad0 = cache_r[(id(pop), render(script, units))]
        if bad0:
            continue
        keys = sorted({(e[0], e[1]) for e in base['events']})
        if not keys:
            continue
        for _ in range(4 if not chk.thorough else 6):
            labels = sorted({k[0] for k in keys})
            sub = set(rng.sample(labels, rng.randint(1, len(labels))))
            plan = {}
            for k in keys:
                if k[0] in sub and rng.random() < 0.8:
                    plan[k] = rng.choice(MIXED)
            plan = {k: p for k, p in plan.items() if p}
            if plan:
                do_case({'pop': pop, 'script': script, 'units': units, 'faults': plan}, cache_r)
        if i == 0:
            chk.sample(case_replay({'pop': pop, 'script': script, 'units': units, 'faults': {}}))
    stats['random_scripts'] = n_random

    lap('random')
    # ---- B'. indirect addressing (iteration forms, variables, routine parameters): oracle only
    n_text = 0
    for text in INDIRECT_SCRIPTS:
        text = text + '\nprint "{}"\n'.format(MARKER)
        base = run_script(base_pop, text, {})
        chk.count()
        case0 = {'pop': base_pop, 'script': [], 'units': 'logical', 'faults': {}}
        for sig, what in judge(case0, None, base):
            chk.violation(sig, what, {'kind': 'text', 'script_text': text, 'faults': {},
                                      'population': [list(r) for r in BASE_POP]})
        if 'compile_error' in base:
            continue
        keys = sorted({(e[0], e[1]) for e in base['events']})
        labels = sorted({k[0] for k in keys})
        plans = [{k: pat for k in keys if k[0] == l} for l in labels for pat in PATTERNS]
        plans += [{k: pat for k in keys if k[0] in pair} for pair in itertools.combinations(labels, 2)
                  for pat in ('11', '*')]
        for plan in plans:
            case = {'pop': base_pop, 'script': [], 'units': 'logical', 'faults': plan}
            res = run_script(base_pop, text, plan)
            chk.count()
            n_text += 1
            for sig, what in judge(case, base, res):
                chk.violation(sig, what, {
                    'kind': 'text', 'script_text': text, 'population': [list(r) for r in BASE_POP],
                    'faults': {'{}|{}'.format(l, m): p for (l, m), p in sorted(plan.items())}})
            if any(e[3] == 'fail' for e in res.get('events', [])):
                chk.nontrivial_case(('text', text, enc_faults(plan)))
    stats['indirect_scripts'] = len(INDIRECT_SCRIPTS)
    stats['indirect_runs'] = n_text

    lap('indirect')
    # ---- C. discovery
    disc_requests = run_discovery(chk, stats)
    run_refresh_loop(chk, stats)
    run_refresh_during_command(chk, stats)

    lap('discovery')
    # ---- D. the bare decorator and the decorator table against the model
    table_requests = []
    from bardolph.lib import retry
    from lifxlan.errors import WorkflowException
    for n in range(0, 6):
        for pat in ['', '0', '1', '11', '111', '1111', '11111', '*', '101', '0111']:
            calls = []
            seq = [c == '1' for c in pat if c != '*']

            def fn():
                calls.append(1)
                if '*' in pat or (len(calls) <= len(seq) and seq[len(calls) - 1]):
                    raise WorkflowException('x')
                return 'answer'
            got = retry.tries(n, WorkflowException, 'failvalue')(fn)()
            chk.count()
            if len(calls) > n:
                chk.violation('attempts-exceed-bound', 'tries({}) made {} attempts'.format(n, len(calls)),
                              {'kind': 'decorator', 'n': n, 'pattern': pat})
            table_requests.append(('fl.tries', [n, pat], '{} {}'.format(
                len(calls), 'answered' if got == 'answer' else 'failvalue'), (n, pat)))
    live = chk.tables.get('sections', {}).get('Retry', {}).get('values', {})
    for cls_name, meth, n, fv in live.get('decorated', []):
        table_requests.append(('fl.decorated', [cls_name, meth],
                               '{} {}'.format(n, 'None' if fv == 'None' else 'value'), (cls_name, meth)))

    # ---- correspondence with the Lean model
    all_requests = requests + disc_requests + table_requests
    answers = chk.driver.ask_many([(c, a) for c, a, _, _ in all_requests])
    n_dis = 0
    for (cmd, args, impl, info), model in zip(all_requests, answers):
        if cmd == 'fl.run':
            units, replay = info
            parts = model.split(' ', 2)
            if len(parts) < 3:
                parts += [''] * (3 - len(parts))
            m = '{} {} {}'.format(parts[0], parts[1] if units == 'raw' else 'x',
                                  ';'.join(canon_model_events(parts[2], units)))
            if m != impl:
                n_dis += 1
                chk.disagreement('fl.run', replay, impl[:600], m[:600])
        elif cmd == 'fl.disc':
            parts = model.split(' ')
            if len(parts) == 5:
                parts[1] = ';'.join(sorted(parts[1].split(';'))) if parts[1] else ''
            m = ' '.join(parts)
            if m != impl:
                n_dis += 1
                chk.disagreement(cmd, info, impl[:600], m[:600])
        elif impl != model:
            n_dis += 1
            chk.disagreement(cmd, info, impl[:600], model[:600])
    lap('model')
    stats['seconds_by_phase'] = phase
    stats['model_requests'] = len(all_requests)
    stats['model_disagreements'] = n_dis
    stats['command_kinds'] = kinds_hit
    chk.coverage['distribution'] = stats
    chk.coverage['rule'] = (
        'A: {} atomic scripts (every command form x right-class / wrong-class / unknown target, '
        'each form twice) on a six-light population, in raw and logical units, x every subset '
        '(all subsets of up to two, a sample of larger ones in the quick tier) of the devices '
        'and LAN-level calls the script touches x fail-1/2/3/4-times-then-answer and '
        'never-answer on all their request kinds, plus each single (device, request kind) x '
        'the same patterns and two interleaved ones; B: random scripts (1-7 statements, '
        'and-lists, 35% with get) x random populations of 2-6 lights x random per-request '
        'patterns; C: discovery with every construction step of every device failing 1..4 '
        'times or for ever, singly and in pairs, from an empty and from a populated '
        'directory; D: the bare decorator for n=0..5. Non-trivial = a run in which at least '
        'one attempt failed (or a discovery with at least one fault), distinct by '
        '(population, script text, fault script).').format(len(atoms))
    chk.assumptions += [
        'faults are WorkflowException raised by the lifxlan object for a request attempt; other '
        'exception types (socket errors, …) are outside the model and propagate',
        'label, group and location of a device are cached by lifxlan after its own discovery and '
        'are not faulted; get_product_features is',
        'group and location members named by the directory are present in it (C13)',
        'generated scripts address lights by literal names; `get` inside a `begin … end` matrix '
        'block is not generated (it redirects the block to the light named by `get`)',
        'containment for scripts with `get` is compared only when no `get` target and no '
        'LAN-level call is faulty (returned data then equals the fault-free data); the other '
        'runs with `get` are still checked for completion and attempt counts',
        'the model carries colours as numbers of a palette (raw units); in logical units the '
        'payloads are compared with the fault-free real run only, not with the model',
        'lifxlan set_zone_color(start, end) end-exclusive convention as in simnet.py',
    ]
    if chk.thorough:
        chk.leanchecker()
    chk.finish()


def run_discovery(chk, stats):
    """oracle 4 + model requests for discovery"""
    requests = []
    old_sets = [[], [('Old', 'plain', 'Pole', 'Home'), ('Strip', 'multizone', 'Pole', 'Home')]]
    new_rows = [('Top', 'plain', 'Pole', 'Home'), ('Strip', 'multizone', 'Desk', 'Home'),
                ('Tile', 'matrix', 'Desk', 'Shed'), ('Beam', 'multizone', 'Pole', 'Shed')]
    keys = construction_keys(new_rows)
    pats = ['1', '11', '111', '1111', '*', '01', '001', '011']
    plans = [{}]
    for k in keys:
        for p in pats:
            plans.append({k: p})
    pairs = list(itertools.combinations(keys, 2))
    if not chk.thorough:
        pairs = chk.rng.sample(pairs, 25)
    for a, b in pairs:
        for p, q in (('11', '11'), ('111', '1'), ('*', '111'), ('11', '*')):
            plans.append({a: p, b: q})
    vanish_sets = [(), ('Strip',), ('Top', 'Tile')]
    for old in old_sets:
        for plan in plans:
            for vanished in (vanish_sets if len(plan) <= 1 else vanish_sets[:1]):
                res = discovery_case(old, new_rows, vanished, plan)
                stats['discovery_runs'] += 1
                chk.count()
                bad = judge_discovery(res, new_rows, vanished)
                replay = {'kind': 'discovery', 'known': [list(r) for r in old],
                          'network': [list(r) for r in new_rows], 'vanished': list(vanished),
                          'faults': {'{}|{}'.format(l, m): p for (l, m), p in plan.items()}}
                for sig, what in bad:
                    chk.violation(sig, what, replay)
                if res['result'] is False:
                    stats['discovery_failed'] += 1
                elif res['result'] is True:
                    stats['discovery_ok'] += 1
                if plan:
                    chk.nontrivial_case(('disc', json.dumps(replay, sort_keys=True)))
                if not bad:
                    net_rows = [r for r in new_rows if r[0] not in vanished]
                    impl = '{} {} {} {} {}'.format(
                        'ok' if res['result'] else 'failed', canon_dir(res['light_set']),
                        res['counters_after'][0], res['counters_after'][1],
                        ';'.join(canon_event(e, 'raw') for e in res['events']))
                    requests.append(('fl.disc', [
                        'fixed', enc_devs(make_pop(old)), res['counters_before'][0],
                        res['counters_before'][1],
                        ';'.join('{}|{}|{}|{}'.format(*r) for r in net_rows), enc_faults(plan)],
                        impl, replay))
    chk.sample({'discovery': {'known': old_sets[1], 'network': new_rows,
                              'faults': {'Strip|get_color_zones': '111'}}})
    return requests


def run_refresh_during_command(chk, stats):
    """the discovery thread does its work (LightSet.refresh: discovery, then expiry) BETWEEN two
    requests of a group / location command one of whose members does not answer.  By then that
    member has been silent for longer than light_gc_time, so the refresh drops it from the
    directory — while the command is still at it.  Every other member must get the command
    exactly once all the same."""
    from bardolph.controller.script_job import ScriptJob
    from bardolph.lib import settings as settings_mod
    rows = [('A', 'plain', 'Pole', 'Home'), ('B', 'plain', 'Pole', 'Home'),
            ('C', 'multizone', 'Pole', 'Home'), ('D', 'plain', 'Pole', 'Home')]
    commands = [('set group "Pole"', 'set_color'), ('set location "Home"', 'set_color'),
                ('on group "Pole"', 'set_power'), ('off location "Home"', 'set_power')]
    stats['refresh_during_command'] = 0
    for silent in ('A', 'B', 'C'):
        for text, meth in commands:
            for at_failure in (1, 2, 3):
                net, ls, trace = simnet.install(make_pop(rows))
                settings_mod.Settings._the_config['light_gc_time'] = 100
                net.faults = fault_script({(silent, meth): '*'})
                net.clear_log()
                REC.clear()
                seen = {'fails': 0, 'refreshed': False, 'escaped': None}

                def hook(ev, seen=seen, net=net, ls=ls, silent=silent, meth=meth, at=at_failure):
                    if ev[0] == silent and ev[1] == meth and ev[3] == 'fail':
                        seen['fails'] += 1
                        if seen['fails'] == at and not seen['refreshed']:
                            seen['refreshed'] = True
                            net.vanished.add(silent)
                            net.clock.now += 101
                            saved, net.faults = net.faults, fault_script({})
                            try:
                                ls.refresh()
                            except BaseException as ex:  # noqa
                                seen['escaped'] = type(ex).__name__
                            net.faults = saved
                    return True
                net.on_event = hook
                script = 'hue 10 saturation 20 brightness 30 kelvin 2700 duration 1 {} print "{}"'.format(
                    text, MARKER)
                job = ScriptJob.from_string(script)
                escaped = None
                try:
                    job.execute()
                except BaseException as ex:  # noqa
                    escaped = type(ex).__name__
                net.on_event = None
                outs = [t[1] for t in trace if t[0] == 'out']
                # the discovery thread comes round again (the silent light is still away, and has
                # been dropped meanwhile): "discovery never raises"
                later = None
                saved, net.faults = net.faults, fault_script({})
                try:
                    net.clock.now += 30
                    ls.refresh()
                    net.clock.now += 30
                    ls.refresh()
                except BaseException as ex:  # noqa
                    later = type(ex).__name__ + ': ' + str(ex)[:100]
                net.faults = saved
                chk.count()
                stats['refresh_during_command'] += 1
                if later is not None:
                    chk.violation('discovery-raises:after-expiry',
                                  'a refresh after the one that dropped the silent light "{}" raised {}'.format(
                                      silent, later),
                                  {'kind': 'refresh-during-command', 'network': [list(r) for r in rows],
                                   'silent': silent, 'command': text, 'refresh_after_failed_attempt': at_failure})
                    continue
                replay = {'kind': 'refresh-during-command', 'network': [list(r) for r in rows],
                          'silent': silent, 'command': text, 'refresh_after_failed_attempt': at_failure}
                got = {lab: len([e for e in net.events if e[0] == lab and e[3] == 'ok' and
                                 e[1] in ('set_color', 'set_power', 'set_zone_color')])
                       for lab, _k, _g, _l in rows if lab != silent}
                if escaped or seen['escaped'] or MARKER not in outs:
                    chk.violation('script-aborted:refresh-during-command',
                                  '{} with "{}" silent: script {} (refresh: {})'.format(
                                      text, silent, escaped or 'did not reach its end', seen['escaped']), replay)
                elif not seen['refreshed']:
                    raise InfraError('the refresh hook never ran')
                elif any(n != 1 for n in got.values()):
                    chk.violation('other-devices-disturbed:refresh-during-command',
                                  '{} with "{}" silent and a refresh after its failed attempt {}: commands '
                                  'delivered per other member {} (1 each expected)'.format(
                                      text, silent, at_failure, got), replay)
                else:
                    chk.nontrivial_case(('refresh-during', silent, text, at_failure))


def run_refresh_loop(chk, stats):
    """`_light_refresh` (the discovery thread's body) over a sequence of failing and
    succeeding discoveries: it must keep looping"""
    from bardolph.controller import i_controller, light_set
    from bardolph.lib import injection

    class Stop(BaseException):
        pass

    rows = [('Top', 'plain', 'Pole', 'Home'), ('Strip', 'multizone', 'Pole', 'Home'),
            ('Tile', 'matrix', 'Desk', 'Home')]
    fault_rounds = [{('Strip', 'get_color_zones'): '*'}, {('*', 'get_lights'): '*'},
                    {('Tile', 'get_device_chain'): '*'}, {('Top', 'get_product_features'): '1'},
                    {('Strip', 'get_color_zones'): '11'}, {}]
    net, ls, trace = simnet.install(make_pop(rows))
    injection.bind_instance(ls).to(i_controller.LightSet)
    state = {'round': 0}
    before = getters(ls)

    def fake_sleep(_secs):
        i = state['round']
        if i >= len(fault_rounds):
            raise Stop()
        net.faults = fault_script(fault_rounds[i])
        state['round'] += 1

    class FakeTime:
        sleep = staticmethod(fake_sleep)
        time = staticmethod(lambda: net.clock.now)

    orig = light_set.time
    light_set.time = FakeTime
    escaped = None
    try:
        light_set._light_refresh()
    except Stop:
        pass
    except BaseException as ex:  # noqa
        escaped = type(ex).__name__
    finally:
        light_set.time = orig
    chk.count(len(fault_rounds))
    stats['refresh_rounds'] = state['round']
    replay = {'kind': 'refresh-loop', 'network': [list(r) for r in rows],
              'rounds': [{'{}|{}'.format(l, m): p for (l, m), p in f.items()} for f in fault_rounds]}
    if escaped is not None:
        chk.violation('refresh-thread-dies:' + escaped,
                      'the discovery thread ended with {} in round {}'.format(escaped, state['round']),
                      replay)
    elif getters(ls)['names'] != before['names']:
        chk.violation('refresh-lost-lights', 'directory changed over failed refreshes', replay)
    elif ls.get_failed_discovers() != 4:
        # rounds 1-4 cannot complete (round 4: one unanswered get_product_features)
        chk.violation('refresh-miscounts-failures',
                      '{} failed discoveries counted, 4 expected'.format(ls.get_failed_discovers()),
                      replay)


def replay_main(path):
    """./check C12 --replay FILE : run one recorded case again and say what the oracle sees"""
    with open(path) as f:
        data = json.load(f)
    rep = data.get('replay', data)
    instrument_once()
    if rep.get('kind') == 'script':
        pop = rep['population']
        for i, d in enumerate(pop):
            d['colour_id'] = COLOUR_ID.get(tuple(d.get('color', [0, 0, 0, 0])), 0)
        script = rep['script']
        faults = {tuple(k.split('|')): p for k, p in rep['faults'].items()}
        case = {'pop': pop, 'script': script, 'units': rep['units'], 'faults': faults}
        text = render(script, rep['units'])
        base = run_script(pop, text, {})
        bad = judge_fault_free(dict(case, faults={}), base)
        if not bad and faults:
            bad = judge(case, base, run_script(pop, text, faults))
    elif rep.get('kind') == 'text':
        pop = make_pop([tuple(r) for r in rep['population']])
        faults = {tuple(k.split('|')): p for k, p in rep['faults'].items()}
        case = {'pop': pop, 'script': [], 'units': 'logical', 'faults': faults}
        base = run_script(pop, rep['script_text'], {})
        bad = judge(dict(case, faults={}), None, base)
        if not bad and faults:
            bad = judge(case, base, run_script(pop, rep['script_text'], faults))
    elif rep.get('kind') == 'discovery':
        faults = {tuple(k.split('|')): p for k, p in rep['faults'].items()}
        res = discovery_case([tuple(r) for r in rep['known']], [tuple(r) for r in rep['network']],
                             rep['vanished'], faults)
        bad = judge_discovery(res, [tuple(r) for r in rep['network']], rep['vanished'])
    else:
        print('replay kind {} is re-run by the full check'.format(rep.get('kind')))
        sys.exit(2)
    for sig, what in bad:
        print('VIOLATION property=C12 replay={} [{}] {}'.format(path, sig, what))
    print('C12 replay: {} violation(s)'.format(len(bad)))
    sys.exit(1 if bad else 0)


_instrumented = []


def instrument_once():
    if not _instrumented:
        instrument()
        _instrumented.append(1)


if __name__ == '__main__':
    if '--replay' in sys.argv:
        replay_main(sys.argv[sys.argv.index('--replay') + 1])
    run_check(main)
