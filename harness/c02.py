#!/usr/bin/env python3
"""C02 — expressions follow the documented precedence, associativity and arithmetic."""
import math
import os
import sys

sys.path.insert(0, os.path.dirname(os.path.abspath(__file__)))
from core import Check, run_check, percent_encode  # noqa: E402
import env  # noqa: E402
import progcheck  # noqa: E402
import progs  # noqa: E402
import runimpl  # noqa: E402
import vmwire  # noqa: E402

OPS = {
    '+': lambda a, b: a + b, '-': lambda a, b: a - b, '*': lambda a, b: a * b,
    '/': lambda a, b: a / b, '%': lambda a, b: a % b, '^': lambda a, b: a ** b,
    '<': lambda a, b: a < b, '<=': lambda a, b: a <= b, '>': lambda a, b: a > b,
    '>=': lambda a, b: a >= b, '==': lambda a, b: a == b, '!=': lambda a, b: a != b,
    'and': lambda a, b: bool(a) and bool(b), 'or': lambda a, b: bool(a) or bool(b),
}
BUILTINS = {
    'round': round, 'trunc': math.trunc, 'floor': math.floor, 'ceil': math.ceil,
    'sqrt': lambda x: math.sqrt(x) if x >= 0 else -1,   # the code and its unit test say -1
    'sin': lambda x: math.sin(math.radians(x)), 'cos': lambda x: math.cos(math.radians(x)),
    'tan': lambda x: math.tan(math.radians(x)),
    'asin': lambda x: math.degrees(math.asin(x)), 'acos': lambda x: math.degrees(math.acos(x)),
    'atan': lambda x: math.degrees(math.atan(x)),
    'cycle': lambda t: t if 0 <= t < 360 else t % 360.0,
}


class Undefined(Exception):
    pass


def tree_value(e, envd, routines):
    """value of the TREE (the documented grammar has already been applied by building it)"""
    k = e[0]
    if k == 'num':
        return e[1]
    if k in ('var', 'reg', 'macro'):
        return envd[e[1]]
    if k == 'paren':
        return tree_value(e[1], envd, routines)
    if k == 'un':
        v = tree_value(e[2], envd, routines)
        return -v if e[1] == '-' else v
    if k == 'bin':
        a = tree_value(e[2], envd, routines)
        b = tree_value(e[3], envd, routines)
        try:
            r = OPS[e[1]](a, b)
        except (ZeroDivisionError, OverflowError, ValueError):
            raise Undefined()
        if isinstance(r, complex):
            raise Undefined()
        return r
    if k == 'call':
        args = [tree_value(a[1], envd, routines) if a[0] == 'expr' else tree_value(a, envd, routines)
                for a in e[2]]
        if e[1] in BUILTINS:
            try:
                return BUILTINS[e[1]](*args)
            except (ValueError, OverflowError):
                raise Undefined()
        return routines[e[1]](*args)
    raise ValueError(e)


def gen_tree(rng, depth, names, allow_call=True, logical=False):
    if depth <= 0 or rng.random() < 0.2:
        k = rng.random()
        if k < 0.45:
            return ('num', rng.choice([0, 1, 2, 3, 5, 7, 10, 0.5, 1.5, 2.25, 100]))
        if k < 0.85 and names:
            n = rng.choice(names)
            return ('reg', n) if n in progs.NUMERIC_REGS else ('var', n)
        if allow_call and k < 0.95:
            f = rng.choice(['dbl', 'round', 'floor', 'add3', 'pick'])
            if f == 'add3':
                return ('call', f, [('expr', gen_tree(rng, depth - 1, names, False)),
                                    ('num', rng.choice([1, 2])), ('expr', gen_tree(rng, 0, names, False))])
            return ('call', f, [('expr', gen_tree(rng, depth - 1, names, False))])
        return ('num', rng.choice([4, 6, 8]))
    k = rng.random()
    if k < 0.1:
        return ('un', rng.choice(['-', '-', '+']), gen_tree(rng, depth - 1, names, allow_call))
    if k < 0.22:
        return ('paren', gen_tree(rng, depth - 1, names, allow_call, logical))
    op = rng.choice(['+', '-', '*', '/', '%', '^', '+', '-', '*', '<', '<=', '>', '>=', '==', '!=',
                     'and', 'or', 'and', 'or'])
    left = gen_tree(rng, depth - 1, names, allow_call)
    if op == '^':
        right = ('num', rng.choice([0, 1, 2, 3])) if rng.random() < 0.8 else \
            ('bin', '^', ('num', 2), ('num', rng.choice([0, 1, 2])))
    else:
        right = gen_tree(rng, depth - 1, names, allow_call)
    return ('bin', op, left, right)


PRELUDE_AST = [
    ('define', 'dbl', ['x'], [('return', ('expr', ('bin', '*', ('var', 'x'), ('num', 2))))]),
    ('define', 'add3', ['a', 'b', 'c'],
     [('return', ('expr', ('bin', '+', ('bin', '+', ('var', 'a'), ('var', 'b')), ('var', 'c'))))]),
    # a routine that returns from the inner one of two nested list loops (which keep their
    # remaining items on the evaluation stack): the c-th pass, counted over both loops, is the
    # first with c >= t; 6 passes in all
    ('define', 'pick', ['t'],
     [('assign', 'c', ('num', 0)),
      ('repeat', ('in', [('light', ('str', 'p')), ('light', ('str', 'q')), ('light', ('str', 'r'))], 'u', None),
       [('repeat', ('in', [('light', ('str', 's')), ('light', ('str', 'w'))], 'v', None),
         [('assign', 'c', ('expr', ('bin', '+', ('var', 'c'), ('num', 1)))),
          ('if', ('expr', ('bin', '>=', ('var', 'c'), ('var', 't'))),
           [('return', ('expr', ('bin', '*', ('var', 'c'), ('num', 100))))], None)])]),
      ('return', ('num', 0))]),
    ('define_macro', 'M', ('num', 12)),
    ('assign', 'x', ('num', 3)), ('assign', 'y', ('num', -4.5)), ('assign', 'z', ('num', 0)),
    ('setreg', 'hue', ('num', 120)), ('setreg', 'brightness', ('num', 40.5)),
]
ENV0 = {'x': 3, 'y': -4.5, 'z': 0, 'M': 12, 'hue': 120, 'brightness': 40.5}
def _pick(t):
    if isinstance(t, bool) or not isinstance(t, (int, float)):
        raise Undefined()
    c = max(1, math.ceil(t))
    return c * 100 if c <= 6 else 0


ROUTINES = {'dbl': lambda x: x * 2, 'add3': lambda a, b, c: a + b + c, 'pick': _pick}
NAMES = ['x', 'y', 'z', 'hue', 'brightness']


def same(a, b):
    if isinstance(a, bool) or isinstance(b, bool):
        return type(a) is type(b) and a == b
    if isinstance(a, float) or isinstance(b, float):
        if isinstance(a, int) != isinstance(b, int):
            return False
        return a == b or abs(a - b) <= 1e-12 * max(1.0, abs(a), abs(b))
    return type(a) is type(b) and a == b


POSITIONS = ['print', 'assign', 'register', 'argument', 'if', 'while', 'count', 'printf', 'bound']


def position_script(pos, tree):
    """a script whose output reveals the value (or truth, or count) of `tree` used in `pos`"""
    rv = ('expr', tree)
    if pos == 'print':
        return [('print', rv)], 'value'
    if pos == 'assign':
        return [('assign', 'r', rv), ('print', ('var', 'r'))], 'value'
    if pos == 'register':
        return [('setreg', 'kelvin', rv), ('print', ('reg', 'kelvin'))], 'value'
    if pos == 'argument':
        return [('define', 'ident', ['q'], [('return', ('var', 'q'))]),
                ('print', ('call', 'ident', [rv]))], 'value'
    if pos == 'printf':
        return [('printf', '{}', [rv])], 'text'
    if pos == 'if':
        return [('if', rv, [('print', ('num', 1))], [('print', ('num', 0))])], 'truth'
    if pos == 'while':
        return [('assign', 'n', ('num', 0)),
                ('repeat', ('while', ('expr', ('bin', 'and', ('paren', tree),
                                               ('bin', '<', ('var', 'n'), ('num', 1)))), 'n'),
                 [('assign', 'n', ('expr', ('bin', '+', ('var', 'n'), ('num', 1))))]),
                ('print', ('var', 'n'))], 'truth'
    if pos == 'count':
        return [('assign', 'n', ('num', 0)),
                ('repeat', ('count', rv), [('assign', 'n', ('expr', ('bin', '+', ('var', 'n'), ('num', 1))))]),
                ('print', ('var', 'n'))], 'count'
    if pos == 'bound':
        # the loop's own index variable is one of the expression's operands (x, 3 before the loop):
        # the bound is evaluated with the value x has BEFORE the loop, as the same expression
        # would be in an assignment placed there
        return [('assign', 'n', ('num', 0)),
                ('repeat', ('range', 'x', ('num', 0), rv),
                 [('assign', 'n', ('expr', ('bin', '+', ('var', 'n'), ('num', 1))))]),
                ('print', ('var', 'n'))], 'bound'
    raise ValueError(pos)


def main():
    chk = Check('C02', extra_modules=['Bardolph.Props.C02Climb', 'Bardolph.Proofs.Climb', 'Bardolph.Proofs.VmSteps',
                                    'Bardolph.Props.C02Bridge', 'Bardolph.Proofs.ExprBridge',
                                    'Bardolph.Proofs.ExprBridgeSim'])
    chk.lean_phase(sections={'ExprTables'})
    rng = chk.rng
    stats = {'expressions': 0, 'undefined_skipped': 0, 'by_position': {}, 'depths': {},
             'value_mismatch': 0, 'pratt_requests': 0, 'pratt_mismatch': 0}
    n = 8000 if chk.thorough else 2500
    pop = []
    cases = []
    for i in range(n):
        depth = rng.choice([1, 2, 3, 3, 4, 5])
        tree = gen_tree(rng, depth, NAMES)
        try:
            want = tree_value(tree, ENV0, ROUTINES)
        except Undefined:
            stats['undefined_skipped'] += 1
            continue
        pos = POSITIONS[i % len(POSITIONS)]
        if pos in ('count', 'bound') and (isinstance(want, bool) or not isinstance(want, (int, float))
                                          or abs(want) > 50):
            pos = 'print'
        if pos == 'bound' and not isinstance(want, int):
            pos = 'assign'
        body, mode = position_script(pos, tree)
        if mode == 'ignore':
            pos, (body, mode) = 'print', position_script('print', tree)
        prog = PRELUDE_AST + body
        c = progcheck.Case(prog, pop, label=pos)
        c.tree, c.want, c.mode, c.depth = tree, want, mode, depth
        cases.append(c)
        stats['by_position'][pos] = stats['by_position'].get(pos, 0) + 1
        stats['depths'][depth] = stats['depths'].get(depth, 0) + 1
    # comparisons between numbers that are close together but different (the comparison tier gives
    # the ordinary logical value: `==` is equality, not closeness), in value and in condition
    # positions
    near = [(3000000000.5, 3000000001.5), (6000000000, 6000000001), (1000000.25, 1000000.5),
            (123456789.0, 123456789.125), (0.1, 0.1000000001), (100, 100.0000001), (5, 5.0), (0.5, 0.5)]
    for a, b in near:
        for op in ('==', '!=', '<', '<=', '>', '>='):
            for x, y in ((a, b), (b, a)):
                tree = ('bin', op, ('num', x), ('num', y))
                if op in ('==', '!='):
                    tree_alt = ('bin', op, ('bin', '/', ('num', x * 2), ('num', 2)), ('num', y))
                else:
                    tree_alt = tree
                for t_ in (tree, tree_alt):
                    want = tree_value(t_, ENV0, ROUTINES)
                    for pos in ('print', 'if', 'while'):
                        body, mode = position_script(pos, t_)
                        c = progcheck.Case(PRELUDE_AST + body, pop, label=pos)
                        c.tree, c.want, c.mode, c.depth = t_, want, mode, 1
                        cases.append(c)
                        stats['by_position']['near-' + pos] = stats['by_position'].get('near-' + pos, 0) + 1
    stats['expressions'] = len(cases)
    # 1. the documented value, directly on the real code
    for c in cases:
        res = runimpl.run_script(c.text, c.pop)
        chk.count()
        c.res = res
        if not res.compiled:
            chk.violation('expression-rejected', 'a well-formed expression is rejected: ' +
                          res.errors.strip()[:100], {'script': c.text, 'tree': repr(c.tree)})
            continue
        outs = [e[1] for e in res.events if e[0] == 'O']
        got = outs[-1] if outs else None
        ok = True
        if res.fault is not None:
            ok = False
        elif c.mode == 'value':
            ok = same(got, c.want)
        elif c.mode == 'text':
            ok = isinstance(got, str) and vmwire.text_close(got, '{}'.format(c.want))
        elif c.mode == 'truth':
            ok = got == (1 if c.want else 0)
        elif c.mode == 'count':
            ok = got == max(0, math.ceil(c.want))
        elif c.mode == 'bound':
            ok = got == abs(c.want) + 1
        if not ok:
            stats['value_mismatch'] += 1
            chk.violation('expression-value-differs-from-documented-grammar',
                          '{} position: `{}` gives {!r}, the documented value is {!r}{}'.format(
                              c.label, ' '.join(progs.expr_tokens(c.tree)), got, c.want,
                              '' if res.fault is None else ' (VM aborted: {})'.format(res.fault)),
                          {'script': c.text, 'tree': repr(c.tree), 'got': repr(got),
                           'want': repr(c.want)})
        else:
            chk.nontrivial_case(c.text)
    chk.sample({'expression': ' '.join(progs.expr_tokens(cases[0].tree)), 'position': cases[0].label,
                'documented_value': repr(cases[0].want)})
    # 2. tie: the model's precedence climbing on the same token lists vs the real parser
    env.configure_basic()
    from bardolph.parser.parse import Parser
    reqs = []
    impl_codes = []
    for c in cases:
        if any(t in ('[', ']') for t in progs.expr_tokens(c.tree)):
            continue
        toks = progs.expr_tokens(c.tree)
        parser = Parser()
        text = 'assign q9 5 assign x 1 assign y 1 assign z 1 assign r { ' + ' '.join(toks) + ' }'
        if not parser.parse(text):
            continue
        code = list(parser.get_program())[4:-1]
        wire = []
        for t in toks:
            if t in ('(', ')') or t in OPS:
                wire.append(t)
            elif t in ('hue', 'brightness', 'M'):
                wire = None
                break
            elif t[0].isdigit() or t[0] == '.':
                v = float(t) if ('.' in t) else int(t)
                wire.append('n:' + progs.val_atom(v))
            else:
                wire.append('v:' + t)
        if wire is None:
            continue
        reqs.append(('expr.parse', wire))
        impl_codes.append((c, [percent_encode(x) for x in vmwire.enc_program(code)]))
    answers = chk.driver.ask_many(reqs) if reqs else []
    stats['pratt_requests'] = len(reqs)
    for (c, impl), a in zip(impl_codes, answers):
        model = a.split('\x1f') if a and a != 'reject' else []
        if model != impl:
            stats['pratt_mismatch'] += 1
            chk.disagreement('expr.parse', {'tokens': ' '.join(progs.expr_tokens(c.tree))},
                             ' '.join(impl)[:200], a[:200])
    # 2b. `not` (a whole expression follows it) and rejected token lists: the model precedence
    # climber must accept exactly what the real expression parser accepts, with the same code
    not_cases = ['not x', 'not x + y', '1 + not 2 * 3', 'not ( x and y )', 'not not x', 'x and not y',
                 'x or not y and z', '- not x', 'not - x', '( not x ) + 1', 'x ^ not y', 'not x ^ y',
                 'x not y', 'not', 'x +', '+ ', '( x', 'x )', 'x + * y', '( )', 'x y', 'not )', '1 + ( 2']
    reqs2, impl2 = [], []
    for text_toks in not_cases:
        toks = text_toks.split()
        parser = Parser()
        text = 'assign x 1 assign y 1 assign z 1 assign r { ' + ' '.join(toks) + ' }'
        ok = parser.parse(text)
        code = [percent_encode(w) for w in vmwire.enc_program(list(parser.get_program())[3:-1])] if ok else None
        wire = []
        for t in toks:
            if t in ('(', ')') or t in OPS or t == 'not':
                wire.append(t)
            elif t[0].isdigit():
                wire.append('n:' + progs.val_atom(int(t)))
            else:
                wire.append('v:' + t)
        reqs2.append(('expr.parse', wire))
        impl2.append((text_toks, code))
    answers2 = chk.driver.ask_many(reqs2)
    stats['pratt_not_and_reject_requests'] = len(reqs2)
    for (text_toks, impl), a in zip(impl2, answers2):
        model = None if a == 'reject' else (a.split('\x1f') if a else [])
        chk.count()
        if model != impl:
            stats['pratt_mismatch'] += 1
            chk.disagreement('expr.parse', {'tokens': text_toks}, str(impl)[:200], a[:200])
    # 3. the whole pipeline on expression-heavy programs (model Gen / VM / Sem)
    sub = cases[: (400 if chk.thorough else 60)]
    progcheck.run_cases(chk, [progcheck.Case(c.prog, c.pop) for c in sub], stats=stats,
                        oracle_sig='expression-trace-differs')
    # 4. built-in functions return their documented results
    check_builtins(chk, stats)
    # two scripts at the same time (harness/twoscripts.py): each must compute what it computes alone
    import twoscripts as _cc
    _problems, _n = _cc.isolation_cases(chk.rng, 25 if chk.thorough else 3)
    stats['concurrent_pairs'] = _n
    chk.count(_n)
    for _p in _problems:
        if _p['kind'] in ('expr', 'fault'):
            chk.violation('expression-value-differs:concurrent-scripts', _p['what'], _p['replay'])
    chk.coverage['distribution'] = stats
    chk.coverage['rule'] = (
        'random expression trees (depth 1-5) over literals, variables, a macro, registers, user '
        'and built-in calls, rendered with minimal parentheses plus random redundant ones, placed '
        'in every value position (print, assignment, register, argument, if, while, count, '
        'printf); the value the real stack prints is compared with the value of the TREE computed '
        'with Python arithmetic (oracle); token lists also go to the model precedence climber; '
        'built-ins on value grids; non-trivial = distinct script with the documented value')
    chk.assumptions += ['`^` with a non-integer exponent and the transcendental built-ins are compared '
                        'with Python\'s math module (tolerance 1e-12), not interpreted by the model',
                        '[sqrt x] for x < 0 is -1 as the code and tests/runtime_test say (the manual says 0)']
    if chk.thorough:
        chk.leanchecker()
    chk.finish()


def check_builtins(chk, stats):
    grid = [-361.5, -360, -90.25, -9, -2.5, -1.5, -0.5, -0.25, 0, 0.25, 0.5, 1, 1.5, 2.5, 3.5, 9, 16,
            30, 45, 60, 90, 180, 359.75, 360, 361, 720.5, 1e6]
    n_calls = 0
    for name, fn in BUILTINS.items():
        for xv in grid:
            if name in ('asin', 'acos') and abs(xv) > 1:
                continue
            if name == 'tan' and xv in (90, -90.25):
                continue
            arg = '{ ' + ('- ' if xv < 0 else '') + progs.num_text(abs(xv)) + ' }'
            res = runimpl.run_script('print [ {} {} ]\n'.format(name, arg), [])
            chk.count()
            n_calls += 1
            outs = [e[1] for e in res.events if e[0] == 'O']
            want = fn(xv)
            if not outs or not same(outs[0], want):
                chk.violation('builtin-result-wrong',
                              '[{} {}] gives {!r}, documented {!r}'.format(name, xv, outs[:1], want),
                              {'script': 'print [{} {}]'.format(name, arg)})
    # random: an integer n with a <= n <= b, every such n can occur
    for a, b in [(1, 3), (2, 2), (0, 1), (-2, 2), (5, 9), (0, 0), (10, 12)]:
        lo = '{ - %d }' % -a if a < 0 else str(a)
        script = 'repeat {} begin print [ random {} {} ] end\n'.format(4 * (b - a + 1), lo, b)
        res = runimpl.run_script(script, [])          # deterministic stub behind py_random
        chk.count()
        outs = [e[1] for e in res.events if e[0] == 'O']
        seen = set(outs)
        if res.fault is not None or not all(isinstance(v, int) and a <= v <= b for v in outs) or \
                seen != set(range(a, b + 1)):
            chk.violation('random-range-wrong',
                          '[random {} {}] produced {} (VM abort: {}); every integer in [{}, {}] and '
                          'nothing else must be possible'.format(a, b, sorted(seen), res.fault, a, b),
                          {'script': script})
        # and with the real PRNG behind it
        script2 = 'repeat 300 begin print [ random {} {} ] end\n'.format(lo, b)
        res2 = runimpl.run_script(script2, [], stub=False)
        chk.count()
        outs2 = [e[1] for e in res2.events if e[0] == 'O']
        if res2.fault is not None or not all(isinstance(v, int) and a <= v <= b for v in outs2) or \
                (b - a <= 4 and set(outs2) != set(range(a, b + 1))):
            chk.violation('random-range-wrong',
                          '[random {} {}] with the real PRNG produced {} in 300 draws (VM abort: {})'
                          .format(a, b, sorted(set(outs2)), res2.fault), {'script': script2})
    stats['builtin_calls'] = n_calls
    return


if __name__ == '__main__':
    run_check(main)
