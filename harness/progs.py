"""Generator of well-scoped Bardolph scripts as ASTs, with a pretty-printer (layout policies)
and light populations.  Every random choice comes from the `random.Random` handed in.

AST (plain tuples so that it is JSON-able):
  rvalue : ('num', v) | ('var', n) | ('reg', r) | ('macro', n) | ('expr', E) | ('call', f, [rv])
  E      : ('num', v) | ('var', n) | ('reg', r) | ('macro', n) | ('call', f, [rv])
           | ('un', op, E) | ('bin', op, E, E) | ('paren', E)
  stmt   : see `Gen.stmt`
"""
import fractions

NUMERIC_REGS = ['hue', 'saturation', 'brightness', 'kelvin', 'duration', 'time']
RGB_REGS = ['red', 'green', 'blue']
BINOPS = ['+', '-', '*', '/', '%', '^', '<', '<=', '>', '>=', '==', '!=', 'and', 'or']
ARITH = ['+', '-', '*']
CMPS = ['<', '<=', '>', '>=', '==', '!=']
PREC = {'or': 2, 'and': 3, '==': 4, '<=': 4, '>=': 4, '!=': 4, '<': 4, '>': 4, '+': 5, '-': 5,
        '*': 6, '/': 6, '%': 6, '^': 7}

NAME_POOL = ['Top', 'Middle', 'Bottom', 'Lamp', 'Strip', 'Candle', 'Table', 'Chair', 'Desk lamp',
             'a', 'B2', 'light_0', 'light_1', 'Ωmega']
GROUP_POOL = ['Pole', 'Furniture', 'Den', 'g']
LOC_POOL = ['Home', 'Office', 'l']


def population(rng, max_lights=6, kinds=('plain', 'plain', 'plain', 'multizone', 'matrix')):
    n = rng.choice([0, 1, 2, 3, 3, 4, 4, 5, max_lights])
    names = rng.sample(NAME_POOL, min(n, len(NAME_POOL)))
    pop = []
    for name in names:
        kind = rng.choice(kinds)
        spec = {'label': name, 'group': rng.choice(GROUP_POOL), 'location': rng.choice(LOC_POOL),
                'kind': kind,
                'color': [rng.randrange(65536), rng.randrange(65536), rng.randrange(65536),
                          rng.choice([2500, 2700, 3500, 4000, 9000])],
                'power': rng.choice([0, 65535])}
        if kind == 'multizone':
            spec['zones'] = [[rng.randrange(65536) for _ in range(3)] + [3500]
                             for _ in range(rng.choice([1, 2, 5, 8, 16]))]
        if kind == 'matrix':
            spec['height'] = rng.choice([1, 2, 3, 6])
            spec['width'] = rng.choice([1, 2, 5])
            spec['cells'] = [[rng.randrange(65536) for _ in range(3)] + [3500]
                             for _ in range(spec['height'] * spec['width'])]
        pop.append(spec)
    return pop


def num_text(v):
    if isinstance(v, bool):
        raise ValueError
    if isinstance(v, int):
        return str(v)
    text = repr(float(v))
    if 'e' in text or 'E' in text:
        text = '{:f}'.format(float(v))
    return text


class Gen:
    def __init__(self, rng, pop, max_depth=3, size=12, features=None):
        self.rng = rng
        self.pop = pop
        self.max_depth = max_depth
        self.size = size
        self.globals = []          # numeric variables assigned at top level (so far)
        self.name_vars = []        # variables holding light/group names
        self.macros = {}           # name -> ('num', v) | ('str', s)
        self.routines = {}         # name -> (params, returns_value)
        self.locals = None         # inside a routine: list of visible numeric locals/params
        self.local_names = None
        self.loop_depth = 0
        self.counter = 0
        self.in_matrix = False
        self.mode = 'logical'
        self.features = features or {}
        self.current_routine = None
        self.protected = set()     # while-loop counters: never assigned by generated bodies

    # ------------------------------------------------------------ helpers
    def fresh(self, prefix='v'):
        self.counter += 1
        return '{}{}'.format(prefix, self.counter)

    def feature(self, name, default=True):
        return self.features.get(name, default)

    def numeric_vars(self):
        if self.locals is not None:
            return list(self.locals) + [g for g in self.globals if g not in self.locals]
        return list(self.globals)

    def light_names(self, kind=None):
        return [s['label'] for s in self.pop if kind is None or s['kind'] == kind]

    def number(self, lo=0, hi=100, allow_float=True):
        r = self.rng
        if allow_float and r.random() < 0.3:
            return r.randrange(lo * 4, hi * 4 + 1) / 4.0
        return r.randrange(lo, hi + 1)

    # ------------------------------------------------------------ expressions
    def atom(self, depth):
        r = self.rng
        choices = ['num', 'num']
        if self.numeric_vars():
            choices += ['var', 'var']
        choices.append('reg')
        nmacros = [n for n, v in self.macros.items() if v[0] == 'num']
        if nmacros:
            choices.append('macro')
        if depth > 0 and self.callable_routines() and self.feature('calls'):
            choices.append('call')
        k = r.choice(choices)
        if k == 'num':
            return ('num', self.number(0, 20))
        if k == 'var':
            return ('var', r.choice(self.numeric_vars()))
        if k == 'reg':
            return ('reg', r.choice(['hue', 'saturation', 'brightness', 'kelvin', 'duration']))
        if k == 'macro':
            return ('macro', r.choice(nmacros))
        return self.call_expr(depth - 1)

    def callable_routines(self):
        names = [n for n, (params, ret) in self.routines.items()
                 if ret and n != self.current_routine]
        return names + (['round', 'floor', 'ceil', 'trunc', 'cycle', 'random'] if self.feature('builtins') else [])

    def nothing_call(self):
        """[nothing]: a call that delivers None (only meaningful as an argument or in an
        assignment; the program must define `nothing` — see `program`)"""
        return ('call', 'nothing', [])

    def call_expr(self, depth):
        r = self.rng
        f = r.choice(self.callable_routines())
        if f == 'random':
            # integer bounds; one call in seven with an empty range (min > max): a run-time error of
            # the script that must end the run, not be swallowed
            a, b = r.randint(-5, 10), r.randint(-5, 10)
            lo, hi = (min(a, b), max(a, b)) if r.random() < 0.85 or a == b else (max(a, b), min(a, b))
            return ('call', 'random', [('num', lo), ('num', hi)])
        if f in ('round', 'floor', 'ceil', 'trunc', 'cycle'):
            params = ['x']
        else:
            params = self.routines[f][0]
        return ('call', f, [self.nothing_call() if self.feature('none_values', False) and r.random() < 0.12
                            else self.rvalue(depth, simple=True, allow_neg=True) for _ in params])

    def expr(self, depth, logical=False):
        r = self.rng
        if depth <= 0 or r.random() < 0.25:
            return self.atom(depth)
        k = r.random()
        if k < 0.1:
            return ('un', r.choice(['-', '-', '+']), self.atom(depth - 1))
        if k < 0.2:
            return ('paren', self.expr(depth - 1, logical))
        if logical:
            op = r.choice(CMPS + ['and', 'or'])
        else:
            op = r.choice(ARITH + ARITH + ['/', '%', '^'])
        left = self.expr(depth - 1, logical and op in ('and', 'or'))
        if op == '^':
            right = ('num', r.choice([0, 1, 2, 2, 3]))
        elif op in ('/', '%'):
            right = ('num', r.choice([1, 2, 3, 4, 5, 8, 0.5, 2.5]))
        else:
            right = self.expr(depth - 1, logical and op in ('and', 'or'))
        return ('bin', op, left, right)

    def condition(self, depth=2):
        r = self.rng
        if self.feature('numeric_conditions', True) and r.random() < 0.15:
            # a condition need not be a comparison: any number counts as false when zero and as
            # true otherwise ("whatever values a script's conditions take at run time")
            k = r.random()
            if k < 0.4:
                return ('expr', ('num', r.choice([0, 1, 3, 40, 2.5, -2, 0.0])))
            if k < 0.7 and self.numeric_vars():
                return ('expr', ('var', r.choice(self.numeric_vars())))
            return ('expr', ('bin', r.choice(['-', '%', '*', '+']), self.expr(depth - 1), ('num', r.choice([1, 2, 3, 4]))))
        op = r.choice(CMPS)
        e = ('bin', op, self.expr(depth - 1), self.expr(depth - 1))
        if r.random() < 0.3:
            e = ('bin', r.choice(['and', 'or']), e,
                 ('bin', r.choice(CMPS), self.expr(depth - 1), self.expr(depth - 1)))
        return ('expr', e)

    def rvalue(self, depth=2, simple=False, allow_neg=False):
        # a negative literal is only understood where a value is mandatory (register setting,
        # assignment, argument, condition, loop bound); elsewhere the generator writes {-v}
        r = self.rng
        k = r.random()
        if k < 0.35 or (simple and k < 0.6):
            v = self.number(0, 100)
            if r.random() < 0.1 and v != 0:
                return ('num', -v) if allow_neg else ('expr', ('un', '-', ('num', v)))
            return ('num', v)
        if k < 0.5 and self.numeric_vars():
            return ('var', r.choice(self.numeric_vars()))
        if k < 0.55:
            return ('reg', r.choice(['hue', 'saturation', 'brightness', 'kelvin', 'duration']))
        nmacros = [n for n, v in self.macros.items() if v[0] == 'num']
        if k < 0.6 and nmacros:
            return ('macro', r.choice(nmacros))
        if k < 0.7 and self.callable_routines() and depth > 0 and self.feature('calls'):
            return self.call_expr(depth - 1)
        return ('expr', self.expr(depth))

    # ------------------------------------------------------------ statements
    def block(self, depth, n=None):
        n = n if n is not None else self.rng.randint(1, 3)
        out = []
        for _ in range(n):
            out.extend(self.stmt(depth))
        return out

    def target(self):
        """one operand of set/on/off"""
        r = self.rng
        names = self.light_names()
        k = r.random()
        if k < 0.15:
            return ('group', ('str', r.choice(GROUP_POOL + ['nogroup'])))
        if k < 0.3:
            return ('location', ('str', r.choice(LOC_POOL + ['nowhere'])))
        if k < 0.4 and self.name_vars and self.locals is None:
            return ('light', ('var', r.choice(self.name_vars)))
        smacros = [n for n, v in self.macros.items() if v[0] == 'str']
        if k < 0.45 and smacros:
            return ('light', ('macro', r.choice(smacros)))
        if names and k < 0.95:
            return ('light', ('str', r.choice(names)))
        return ('light', ('str', 'missing'))

    def action(self, depth):
        r = self.rng
        kind = r.choice(['set', 'set', 'set', 'on', 'off'])
        k = r.random()
        if k < 0.12 and not self.in_matrix:
            # `all` is not allowed inside a matrix block (nor inside a routine defined there)
            return [('action', kind, 'all')]
        if kind == 'set' and k < 0.17 and self.feature('default'):
            return [('action', 'set', 'default')]
        if kind == 'set' and k < 0.3 and self.feature('zones'):
            mz = self.light_names('multizone')
            name = r.choice(mz) if mz and r.random() < 0.85 else (r.choice(self.light_names() or ['missing']))
            a = r.randrange(0, 6)
            b = None if r.random() < 0.4 else a + r.randrange(0, 4)
            return [('action', 'set', [('zone', ('str', name), ('num', a),
                                        None if b is None else ('num', b))])]
        if kind == 'set' and k < 0.3 + self.features.get('matrix_p', 0.15) and self.feature('matrix') \
                and not self.in_matrix:
            # matrix blocks do not nest (and the context flag survives a routine definition)
            return self.matrix_action(depth)
        ops = [self.target()]
        while r.random() < 0.3 and len(ops) < 3:
            ops.append(self.target())
        return [('action', kind, ops)]

    def matrix_range(self, extent):
        r = self.rng
        if r.random() < 0.25:
            return None
        a = r.randrange(0, max(1, extent))
        if r.random() < 0.4:
            return (('num', a), None)
        b = r.randrange(a, max(a + 1, extent))
        return (('num', a), ('num', b))

    def matrix_action(self, depth):
        r = self.rng
        mats = [s for s in self.pop if s['kind'] == 'matrix']
        if mats and (r.random() < 0.9 or not self.feature('matrix_on_nonmatrix', True)):
            spec = r.choice(mats)
            name, h, w = spec['label'], spec['height'], spec['width']
        elif self.feature('matrix_on_nonmatrix', True):
            name, h, w = (r.choice(self.light_names() or ['missing'])), 2, 2
        else:
            name, h, w = 'missing', 2, 2
        if r.random() < 0.5:
            rows, cols = self.matrix_range(h), self.matrix_range(w)
            if rows is None and cols is None:
                rows = (('num', 0), None)
            return [('action', 'set', [('matrix', ('str', name), rows, cols,
                                        r.random() < 0.5)])]
        if self.feature('matrix_rich') and r.random() < 0.6:
            return [('action', 'set', [('matrix_block', ('str', name),
                                        self.matrix_body(depth, h, w))])]
        stages = []
        for _ in range(r.randint(1, 3)):
            if r.random() < 0.6:
                stages.append(('setreg', r.choice(['hue', 'saturation', 'brightness']),
                               ('num', self.number(0, 100))))
            stages.append(self.stage_stmt(h, w))
        return [('action', 'set', [('matrix_block', ('str', name), stages)])]

    def stage_stmt(self, h=None, w=None):
        if h is None:
            h, w = getattr(self, 'matrix_dims', None) or (2, 2)
        r = self.rng
        rows, cols = self.matrix_range(h), self.matrix_range(w)
        if rows is None and cols is None:
            cols = (('num', 0), None)
        return ('stage', rows, cols, r.random() < 0.5)

    def matrix_body(self, depth, h, w):
        """the body of a matrix block as the language allows it: besides `stage` and register
        settings, commands to other lights (which get no WAIT of their own: the block is one
        command on the time line), `wait`, assignments, prints, `get`, `if`, loops (with
        `stage` inside; a `break` belongs to a loop of the body), calls — everything
        `stmt` makes while `in_matrix` is set"""
        r = self.rng
        saved_loop, self.loop_depth = self.loop_depth, 0
        saved_dims = getattr(self, 'matrix_dims', None)
        self.in_matrix, self.matrix_dims = True, (h, w)
        saved = self.snapshot_scope()
        body = []
        for _ in range(r.randint(1, 4)):
            body.extend(self.stmt(min(depth - 1, 2)))
        if not any(st[0] == 'stage' for st in body) and r.random() < 0.8:
            body.insert(r.randrange(0, len(body) + 1), self.stage_stmt(h, w))
        self.restore_scope(saved)
        self.in_matrix, self.matrix_dims = False, saved_dims
        self.loop_depth = saved_loop
        return body

    def setreg(self):
        r = self.rng
        if self.mode == 'rgb' and r.random() < 0.5:
            return [('setreg', r.choice(RGB_REGS), ('num', self.number(0, 100)))]
        reg = r.choice(['hue', 'saturation', 'brightness', 'kelvin', 'duration', 'time', 'hue',
                        'brightness'])
        if reg == 'hue':
            rv = self.rvalue(allow_neg=True) if r.random() < 0.5 else ('num', self.number(0, 360))
        elif reg == 'kelvin':
            rv = ('num', r.choice([1500, 2700, 3500, 6500, 9000]))
        elif reg in ('duration', 'time'):
            rv = ('num', r.choice([0, 0, 1, 2, 0.5, 1.25, 10])) if r.random() < 0.7 else self.rvalue(1)
        else:
            rv = self.rvalue(allow_neg=True) if r.random() < 0.5 else ('num', self.number(0, 100))
        return [('setreg', reg, rv)]

    def assign(self):
        r = self.rng
        pool = [v for v in self.numeric_vars() if v not in self.protected]
        if pool and r.random() < 0.5:
            name = r.choice(pool)
        elif self.locals is not None and self.feature('shared_names', False) and r.random() < 0.7:
            # the same few local names in every routine: activations must keep them apart
            name = r.choice(['t', 'u', 'acc'])
        else:
            name = self.fresh('x')
        rv = self.rvalue(allow_neg=True)
        stmt = ('assign', name, rv)
        if self.locals is not None:
            if name not in self.locals and name not in self.globals:
                self.locals.append(name)
        elif name not in self.globals:
            self.globals.append(name)
        return [stmt]

    def if_stmt(self, depth):
        r = self.rng
        cond = self.condition()
        saved = self.snapshot_scope()
        then = self.block(depth - 1)
        self.restore_scope(saved)
        els = None
        if r.random() < 0.5:
            els = self.block(depth - 1)
            self.restore_scope(saved)
        return [('if', cond, then, els)]

    def snapshot_scope(self):
        return (list(self.globals), None if self.locals is None else list(self.locals),
                list(self.name_vars), self.mode)

    def restore_scope(self, saved):
        # variables first assigned inside a conditional or loop body may be unassigned later:
        # keep only what was definitely assigned before
        self.globals, self.locals, self.name_vars, mode = (
            list(saved[0]), None if saved[1] is None else list(saved[1]), list(saved[2]), saved[3])
        # the unit mode may differ after a conditional switch; the generator avoids switching
        # inside conditionals (see stmt), so mode is unchanged

    def repeat(self, depth):
        r = self.rng
        saved = self.snapshot_scope()
        forms = ['count', 'count', 'range', 'interp', 'cycle', 'while']
        if self.feature('iter') and (self.locals is None or self.feature('iter_in_routines', True)):
            forms += ['all', 'group', 'location', 'in', 'in']
        form = r.choice(forms)
        self.loop_depth += 1
        hdr = None
        pre = []
        idx = None
        add_locals = []
        if form == 'count':
            hdr = ('count', ('num', r.choice([0, 1, 2, 3])) if r.random() < 0.7 else self.rvalue_int())
        elif form == 'range':
            idx = self.fresh('i')
            a, b = r.randrange(-2, 5), r.randrange(-2, 5)
            hdr = ('range', idx, ('num', a), ('num', b))
        elif form == 'interp':
            idx = self.fresh('i')
            hdr = ('interp', ('num', r.choice([0, 1, 2, 3, 4, 5])), idx,
                   ('num', self.number(0, 100)), ('num', self.number(0, 100)))
        elif form == 'cycle':
            idx = self.fresh('h')
            start = None if r.random() < 0.5 else ('num', self.number(0, 360))
            hdr = ('cycle', ('num', r.choice([1, 2, 3, 4, 5, 6])), idx, start)
        elif form == 'while':
            idx = self.fresh('w')
            self.protected.add(idx)
            pre = [('assign', idx, ('num', 0))]
            limit = r.choice([0, 1, 2, 3])
            hdr = ('while', ('expr', ('bin', '<', ('var', idx), ('num', limit))), idx)
        else:
            lv = self.fresh('L')
            with_part = None
            if r.random() < 0.4:
                idx = self.fresh('i')
                if r.random() < 0.5:
                    with_part = ('from', idx, ('num', self.number(0, 100)), ('num', self.number(0, 100)))
                else:
                    with_part = ('cycle', idx, None if r.random() < 0.5 else ('num', self.number(0, 360)))
            if form == 'all':
                hdr = ('all', lv, with_part)
            elif form == 'group':
                hdr = ('groups', lv, with_part)
            elif form == 'location':
                hdr = ('locations', lv, with_part)
            else:
                items = []
                for _ in range(r.randint(1, 3)):
                    k = r.random()
                    if k < 0.5:
                        spec = ('str', r.choice(self.light_names() or ['missing']))
                        if self.name_vars and self.locals is None and r.random() < 0.3:
                            spec = ('var', r.choice(self.name_vars))
                        items.append(('light', spec))
                    elif k < 0.75:
                        items.append(('group', ('str', r.choice(GROUP_POOL))))
                    else:
                        items.append(('location', ('str', r.choice(LOC_POOL))))
                    # any value may stand for a name: `{"Top"}`, `{v}`, `group {"Pole"}`
                    if self.feature('iter_values') and r.random() < 0.3:
                        kind, spec = items[-1]
                        items[-1] = (kind, ('expr', spec if spec[0] == 'var' else ('str', spec[1])))
                hdr = ('in', items, lv, with_part)
            self.name_vars.append(lv)
            if form in ('group', 'location'):
                # the variable holds a group/location name, not a light name
                self.name_vars.remove(lv)
                self.set_vars = getattr(self, 'set_vars', [])
        if idx is not None:
            if self.locals is not None:
                if idx not in self.locals:
                    self.locals.append(idx)
            elif idx not in self.globals:
                self.globals.append(idx)
        # the body does not assign the loop's own index variable (what the next pass then sees
        # is not specified by the manual)
        newly_protected = idx is not None and idx not in self.protected
        if newly_protected:
            self.protected.add(idx)
        body = self.block(depth - 1)
        if newly_protected and form != 'while':
            self.protected.discard(idx)
        if form == 'while':
            body.append(('assign', hdr[2], ('expr', ('bin', '+', ('var', hdr[2]), ('num', 1)))))
        if self.current_routine is not None and getattr(self, 'routine_returns', None) is not None \
                and r.random() < 0.35:
            # a return from inside the loop (at any loop depth) — only variables known before
            after0 = self.snapshot_scope()
            self.restore_scope(saved)
            rv = self.rvalue(1) if self.routine_returns else None
            # a bare `return` takes a following value if there is one: keep it alone in a block
            ret = ('if', self.condition(1), [('return', rv)], None) \
                if (rv is None or r.random() < 0.6) else ('return', rv)
            self.restore_scope(after0)
            body.insert(r.randrange(0, len(body) + 1) if form != 'while' else 0, ret)
        if r.random() < 0.25 and self.feature('break'):
            pos = r.randrange(0, len(body) + 1)
            after = self.snapshot_scope()
            self.restore_scope(saved)
            brk = ('if', self.condition(1), [('break',)], None) if r.random() < 0.7 else ('break',)
            self.restore_scope(after)
            if form == 'while' and pos == len(body):
                pos -= 1
            body.insert(pos, brk)
        self.loop_depth -= 1
        self.restore_scope(saved)
        if form == 'while':
            # the counter variable stays assigned after the loop
            if self.locals is not None:
                self.locals.append(hdr[2])
            else:
                self.globals.append(hdr[2])
        return pre + [('repeat', hdr, body)]

    def rvalue_int(self):
        return ('expr', ('bin', '+', ('num', self.rng.choice([0, 1])), ('num', self.rng.choice([0, 1, 2]))))

    def recursive_routine(self):
        """a routine calling itself with a decreasing argument, using its parameter and a
        local after the recursive call (each activation must have its own)"""
        r = self.rng
        name = self.fresh('rec')
        n = self.fresh('n')
        loc = self.fresh('k')
        self.routines[name] = ([n], True)
        body = [('assign', loc, ('expr', ('bin', '*', ('var', n), ('num', r.choice([2, 3, 10]))))),
                ('if', ('expr', ('bin', '<=', ('var', n), ('num', 0))), [('return', ('num', r.choice([0, 1])))], None),
                ('assign', n, ('expr', ('bin', '+', ('call', name, [('expr', ('bin', '-', ('var', n), ('num', 1)))]),
                                         ('var', loc)))),
                ('print', ('var', loc)),
                ('return', ('var', n))]
        return [('define', name, [n], body)]

    def define_routine(self, depth):
        r = self.rng
        if self.feature('recursion', False) and r.random() < 0.2:
            return self.recursive_routine()
        name = self.fresh('fn')
        params = [self.fresh('p') for _ in range(r.choice([0, 1, 1, 2, 3]))]
        if self.feature('shared_names', False) and r.random() < 0.7:
            params = r.sample(['a', 'b', 'n', 't', 'u', 'acc'], len(params))
        # a parameter may shadow a global
        if self.globals and r.random() < self.features.get('shadow', 0.4) and params:
            params[0] = r.choice(self.globals)
            if len(params) > 1 and r.random() < 0.5 and len(self.globals) > 1:
                other = r.choice(self.globals)
                if other != params[0]:
                    params[-1] = other
        returns = r.random() < 0.6
        saved = self.snapshot_scope()
        self.locals = list(params)
        self.current_routine = name
        self.routine_returns = returns
        saved_loop = self.loop_depth
        self.loop_depth = 0
        # recursion: guarded by a decreasing first parameter
        body = self.block(depth - 1, r.randint(1, 3))
        if self.feature('printf_calls', False) and r.random() < 0.45:
            # the routine writes something itself, with values of its own pending
            body.insert(0, ('printf', '[{} {}]', [('var', params[0]) if params else ('num', 1),
                                                   ('num', r.choice([7, 8, 9]))]))
        final_locals = self.locals
        if returns:
            if r.random() < 0.4:
                self.locals = list(params)
                early = ('if', self.condition(1), [('return', self.rvalue(1))], None)
                self.locals = final_locals
                body.insert(r.randrange(0, len(body) + 1), early)
            body.append(('return', self.rvalue(1)))
        elif r.random() < 0.3:
            self.locals = list(params)
            early = ('if', self.condition(1), [('return', None)], None)
            self.locals = final_locals
            body.insert(r.randrange(0, len(body) + 1), early)
        self.loop_depth = saved_loop
        self.locals = None
        self.current_routine = None
        self.routine_returns = None
        self.restore_scope(saved)
        self.routines[name] = (params, returns)
        return [('define', name, params, body)]

    def call_stmt(self, depth):
        r = self.rng
        names = [n for n in self.routines if n != self.current_routine]
        if not names:
            return self.assign()
        f = r.choice(names)
        params = self.routines[f][0]
        return [('call', f, [self.nothing_call() if self.feature('none_values', False) and r.random() < 0.12
                             else self.rvalue(depth - 1, simple=True, allow_neg=True) for _ in params],
                 False)]

    def print_stmt(self):
        r = self.rng
        k = r.random()
        if k < 0.5:
            return [('print', self.rvalue(1))]
        if k < 0.8:
            return [('println', self.rvalue(1))]
        pc = self.feature('printf_calls', False)
        n = r.choice([0, 1, 2, 2, 3]) if pc else r.choice([0, 1, 2])
        fmt = ' '.join(['{}'] * n) if n else 'x'
        if self.numeric_vars() and r.random() < 0.4:
            fmt += ' {' + r.choice(self.numeric_vars()) + '}'
        if r.random() < 0.3:
            fmt += ' {hue}'
        args = []
        own = [f for f in self.routines if self.routines[f][1] and f != self.current_routine]
        for i in range(n):
            # a later value of a printf that is itself a call to a routine of the script (which may
            # print on its own while the statement's earlier values are pending)
            if pc and i > 0 and own and r.random() < 0.5:
                f = r.choice(own)
                args.append(('call', f, [self.rvalue(0, simple=True, allow_neg=True)
                                         for _ in self.routines[f][0]]))
            else:
                args.append(self.rvalue(1))
        return [('printf', fmt, args)]

    def stmt(self, depth):
        r = self.rng
        w = {'setreg': 4, 'action': 5, 'assign': 3, 'print': 3, 'wait': 1, 'if': 2, 'repeat': 2,
             'define': 2, 'macro': 1, 'units': 1, 'timeat': 1, 'call': 2, 'get': 1}
        w.update(self.features.get('weights', {}))
        kinds = []
        for k in ('setreg', 'action', 'assign', 'print', 'wait'):
            kinds += [k] * w[k]
        if depth > 0:
            kinds += ['if'] * w['if'] + ['repeat'] * w['repeat']
        if self.locals is None and depth >= 2 and depth < self.max_depth and \
                self.feature('nested_define', False):
            kinds += ['define'] * w['define']
        if self.locals is None and self.loop_depth == 0 and depth == self.max_depth:
            # top level only
            kinds += ['define'] * w['define'] + ['macro'] * w['macro'] + ['units'] * w['units']
            if self.feature('timeat'):
                kinds += ['timeat'] * w['timeat']
        if self.routines:
            kinds += ['call'] * w['call']
        if self.feature('get') and self.light_names('plain'):
            kinds += ['get'] * w['get']
        if self.in_matrix:
            kinds += ['stage'] * 6
        elif self.locals is not None and self.feature('matrix_rich') and self.feature('matrix'):
            # `stage` is allowed anywhere in a routine body; it acts on the matrix of the
            # block the routine is called from (on nothing when called from elsewhere)
            kinds += ['stage']
        k = r.choice(kinds)
        if k == 'stage':
            return [self.stage_stmt()]
        if k == 'setreg':
            return self.setreg()
        if k == 'action':
            return self.action(depth)
        if k == 'assign':
            return self.assign()
        if k == 'print':
            return self.print_stmt()
        if k == 'wait':
            return [('wait',)]
        if k == 'if':
            return self.if_stmt(depth)
        if k == 'repeat':
            return self.repeat(depth)
        if k == 'define':
            return self.define_routine(depth)
        if k == 'macro':
            name = self.fresh('M')
            if r.random() < 0.7:
                val = ('num', self.number(0, 100))
            else:
                val = ('str', r.choice(self.light_names() or ['missing']))
            self.macros[name] = val
            return [('define_macro', name, val)]
        if k == 'units':
            self.mode = r.choice(['raw', 'logical', 'rgb', 'logical'])
            return [('units', self.mode)]
        if k == 'timeat':
            pats = [r.choice(['8:00', '*:15', '1*:3*', '23:59', '*:*', '*5:0*'])
                    for _ in range(r.choice([1, 1, 2, 3]))]
            return [('timeat', pats), ('wait',), ('setreg', 'time', ('num', 0))]
        if k == 'call':
            return self.call_stmt(depth)
        if k == 'get':
            return [('get', ('str', r.choice(self.light_names('plain'))))]
        return self.setreg()

    def program(self):
        out = []
        if self.feature('none_values', False):
            out.append(('define', 'nothing', [], [('return', None)]))
            self.routines['nothing'] = ([], False)
        n = self.rng.randint(max(2, self.size // 2), self.size)
        for _ in range(n):
            out.extend(self.stmt(self.max_depth))
        return out


# ---------------------------------------------------------------- pretty printer
class Layout:
    """how tokens are laid out: 'plain' (one statement per line, indented) or 'noisy'
    (random white space, comments, abbreviations, optional braces/brackets)"""

    def __init__(self, rng=None, noisy=False):
        self.rng = rng
        self.noisy = noisy and rng is not None

    def sep(self):
        if not self.noisy:
            return ' '
        r = self.rng.random()
        if r < 0.6:
            return ' '
        if r < 0.75:
            return '  \t '
        if r < 0.9:
            return '\n'
        return ' # comment ' + self.rng.choice(['', 'set all', '"x"', '{ [']) + '\n'

    def join(self, tokens):
        out = []
        for i, t in enumerate(tokens):
            if i:
                out.append(self.sep())
            out.append(t)
        return ''.join(out)


def expr_tokens(e, parent_prec=0, right_side=False):
    k = e[0]
    if k == 'num':
        v = e[1]
        if v < 0:
            return ['(', '-', num_text(-v), ')'] if parent_prec else ['-', num_text(-v)]
        return [num_text(v)]
    if k in ('var', 'reg', 'macro'):
        return [e[1]]
    if k == 'str':
        return ['"' + e[1] + '"']
    if k == 'call':
        toks = ['[', e[1]]
        for a in e[2]:
            toks += rvalue_tokens(a)
        return toks + [']']
    if k == 'paren':
        return ['('] + expr_tokens(e[1]) + [')']
    if k == 'un':
        inner = e[2]
        # the operand of a unary operator is an atom: parenthesise anything else
        if inner[0] in ('bin',):
            return [e[1], '('] + expr_tokens(inner) + [')']
        return [e[1]] + expr_tokens(inner, 99)
    if k == 'bin':
        op = e[1]
        p = PREC[op]
        left = expr_tokens(e[2], p, False)
        right = expr_tokens(e[3], p, True)
        # parenthesise children that would otherwise regroup
        if e[2][0] == 'bin':
            lp = PREC[e[2][1]]
            if lp < p or (lp == p and op == '^'):
                left = ['('] + expr_tokens(e[2]) + [')']
        if e[3][0] == 'bin':
            rp = PREC[e[3][1]]
            if rp < p or (rp == p and op != '^'):
                right = ['('] + expr_tokens(e[3]) + [')']
        return left + [op] + right
    raise ValueError(e)


def rvalue_tokens(rv):
    k = rv[0]
    if k == 'num':
        v = rv[1]
        return ['-' + num_text(-v)] if v < 0 else [num_text(v)]
    if k in ('var', 'reg', 'macro'):
        return [rv[1]]
    if k == 'str':
        return ['"' + rv[1] + '"']
    if k == 'expr':
        return ['{'] + expr_tokens(rv[1]) + ['}']
    if k == 'call':
        return expr_tokens(rv)
    raise ValueError(rv)


def name_tokens(ns):
    if ns[0] == 'str':
        return ['"' + ns[1] + '"']
    return [ns[1]]


def range_tokens(word, rng_):
    if rng_ is None:
        return []
    a, b = rng_
    return [word] + rvalue_tokens(a) + ([] if b is None else rvalue_tokens(b))


def stmt_tokens(s):
    """flat token list of one statement (blocks included)"""
    k = s[0]
    if k == 'setreg':
        return [s[1]] + rvalue_tokens(s[2])
    if k == 'units':
        return ['units', s[1]]
    if k == 'wait':
        return ['wait']
    if k == 'break':
        return ['break']
    if k == 'get':
        return ['get'] + (rvalue_tokens(s[1]) if s[1][0] == 'expr' else name_tokens(s[1]))
    if k == 'timeat':
        toks = ['time', 'at', s[1][0]]
        for p in s[1][1:]:
            toks += ['or', p]
        return toks
    if k == 'assign':
        return ['assign', s[1]] + rvalue_tokens(s[2])
    if k == 'define_macro':
        return ['define', s[1]] + rvalue_tokens(s[2])
    if k == 'define':
        toks = ['define', s[1]]
        if s[2]:
            toks += ['with'] + list(s[2])
        return toks + block_tokens(s[3], force=True)
    if k == 'call':
        toks = [s[1]]
        for a in s[2]:
            toks += rvalue_tokens(a)
        if len(s) > 3 and s[3]:
            return ['['] + toks + [']']
        return toks
    if k == 'return':
        return ['return'] + ([] if s[1] is None else rvalue_tokens(s[1]))
    if k == 'if':
        toks = ['if'] + rvalue_tokens(s[1]) + block_tokens(s[2])
        if s[3] is not None:
            toks += ['else'] + block_tokens(s[3])
        return toks
    if k == 'print':
        return ['print'] + rvalue_tokens(s[1])
    if k == 'println':
        return ['println'] + ([] if s[1] is None else rvalue_tokens(s[1]))
    if k == 'printf':
        toks = ['printf', '"' + s[1] + '"']
        for a in s[2]:
            toks += rvalue_tokens(a)
        return toks
    if k == 'stage':
        return ['stage'] + matrix_spec_tokens(s[1], s[2], s[3])
    if k == 'action':
        toks = [s[1]]
        if s[2] == 'all':
            return toks + ['all']
        if s[2] == 'default':
            return toks + ['default']
        first = True
        for op in s[2]:
            if not first:
                toks.append('and')
            first = False
            toks += operand_tokens(op)
        return toks
    if k == 'repeat':
        return repeat_tokens(s)
    raise ValueError(s)


def matrix_spec_tokens(rows, cols, cols_first):
    r = range_tokens('row', rows)
    c = range_tokens('column', cols)
    return (c + r) if cols_first else (r + c)


def operand_tokens(op):
    k = op[0]
    if k == 'light':
        return name_tokens(op[1])
    if k == 'group':
        return ['group'] + name_tokens(op[1])
    if k == 'location':
        return ['location'] + name_tokens(op[1])
    if k == 'zone':
        return name_tokens(op[1]) + ['zone'] + rvalue_tokens(op[2]) + \
            ([] if op[3] is None else rvalue_tokens(op[3]))
    if k == 'matrix':
        return name_tokens(op[1]) + matrix_spec_tokens(op[2], op[3], op[4])
    if k == 'matrix_block':
        return name_tokens(op[1]) + block_tokens(op[2], force=True)
    raise ValueError(op)


def with_tokens(w):
    if w is None:
        return []
    if w[0] == 'from':
        return ['with', w[1], 'from'] + rvalue_tokens(w[2]) + ['to'] + rvalue_tokens(w[3])
    return ['with', w[1], 'cycle'] + ([] if w[2] is None else rvalue_tokens(w[2]))


def repeat_tokens(s):
    hdr, body = s[1], s[2]
    f = hdr[0]
    if f == 'count':
        toks = ['repeat'] + rvalue_tokens(hdr[1])
    elif f == 'range':
        toks = ['repeat', 'with', hdr[1], 'from'] + rvalue_tokens(hdr[2]) + ['to'] + rvalue_tokens(hdr[3])
    elif f == 'interp':
        toks = ['repeat'] + rvalue_tokens(hdr[1]) + ['with', hdr[2], 'from'] + \
            rvalue_tokens(hdr[3]) + ['to'] + rvalue_tokens(hdr[4])
    elif f == 'cycle':
        toks = ['repeat'] + rvalue_tokens(hdr[1]) + ['with', hdr[2], 'cycle'] + \
            ([] if hdr[3] is None else rvalue_tokens(hdr[3]))
    elif f == 'while':
        toks = ['repeat', 'while'] + rvalue_tokens(hdr[1])
    elif f == 'forever':
        toks = ['repeat']
    elif f == 'all':
        toks = ['repeat', 'all', 'as', hdr[1]] + with_tokens(hdr[2])
    elif f == 'groups':
        toks = ['repeat', 'group', 'as', hdr[1]] + with_tokens(hdr[2])
    elif f == 'locations':
        toks = ['repeat', 'location', 'as', hdr[1]] + with_tokens(hdr[2])
    elif f == 'in':
        toks = ['repeat', 'in']
        first = True
        for item in hdr[1]:
            if not first:
                toks.append('and')
            first = False
            spec_toks = rvalue_tokens(item[1]) if item[1][0] == 'expr' else name_tokens(item[1])
            if item[0] == 'light':
                toks += spec_toks
            else:
                toks += [item[0]] + spec_toks
        toks += ['as', hdr[2]] + with_tokens(hdr[3])
    else:
        raise ValueError(hdr)
    # `cycle` without a start value, and `repeat` alone, are followed by an optional value:
    # the body must then start with `begin`
    open_end = f == 'forever' or (f == 'cycle' and hdr[3] is None) or \
        (f in ('all', 'groups', 'locations') and hdr[2] is not None and hdr[2][0] == 'cycle'
         and hdr[2][2] is None) or \
        (f == 'in' and hdr[3] is not None and hdr[3][0] == 'cycle' and hdr[3][2] is None)
    return toks + block_tokens(body, force=open_end)


SIMPLE = ('setreg', 'units', 'wait', 'break', 'get', 'assign', 'print', 'action', 'call')


def block_tokens(stmts, force=False):
    single = len(stmts) == 1 and not force and stmts[0][0] in SIMPLE
    if single and stmts[0][0] == 'action' and isinstance(stmts[0][2], list) and \
            stmts[0][2][0][0] == 'matrix_block':
        single = False
    if single:
        return stmt_tokens(stmts[0])
    toks = ['begin']
    for st in stmts:
        toks += stmt_tokens(st)
    return toks + ['end']


def render(stmts, layout=None):
    layout = layout or Layout()
    if not layout.noisy:
        return '\n'.join(' '.join(stmt_tokens(s)) for s in stmts) + '\n'
    toks = []
    for s in stmts:
        toks += stmt_tokens(s)
    return layout.join(toks) + '\n'


def generate(rng, pop=None, size=12, max_depth=3, features=None):
    pop = pop if pop is not None else population(rng)
    g = Gen(rng, pop, max_depth=max_depth, size=size, features=features)
    prog = g.program()
    return prog, pop


# ---------------------------------------------------------------- S-expressions for the Lean model
BUILTIN_PARAMS = {'round': ['x'], 'trunc': ['x'], 'floor': ['x'], 'ceil': ['x'], 'sqrt': ['x'],
                  'sin': ['x'], 'cos': ['x'], 'tan': ['x'], 'asin': ['x'], 'acos': ['x'],
                  'atan': ['x'], 'cycle': ['theta'], 'random': ['min', 'max']}


def _atom(s):
    out = []
    for ch in s:
        o = ord(ch)
        if ch in '%() \t\n\r':
            out.append('%{:02x}'.format(o))
        elif o < 32 or o > 126:
            out.append('%u{{{:x}}}'.format(o))
        else:
            out.append(ch)
    return ''.join(out)


def val_atom(v):
    if v is None:
        return 'n'
    if isinstance(v, bool):
        return 'b:1' if v else 'b:0'
    if isinstance(v, int):
        return 'i:{}'.format(v)
    if isinstance(v, float):
        n, d = v.as_integer_ratio()
        return 'f:{}/{}'.format(n, d)
    if isinstance(v, str):
        return 's:' + _atom(v.replace('\\', '\\\\').replace('|', '\\p'))
    raise ValueError(v)


class SexpEnv:
    def __init__(self):
        self.macros = {}
        self.routines = dict(BUILTIN_PARAMS)


def _lit_expr(v):
    if isinstance(v, (int, float)) and not isinstance(v, bool) and v < 0:
        return '(paren (un - (lit {})))'.format(val_atom(-v))
    return '(lit {})'.format(val_atom(v))


def expr_sexp(e, envs):
    k = e[0]
    if k == 'num':
        return _lit_expr(e[1])
    if k == 'str':
        return '(lit {})'.format(val_atom(e[1]))
    if k == 'macro':
        return '(lit {})'.format(val_atom(envs.macros[e[1]]))
    if k == 'var':
        return '(var {})'.format(_atom(e[1]))
    if k == 'reg':
        return '(reg {})'.format(e[1].upper())
    if k == 'call':
        return call_sexp(e, envs)
    if k == 'un':
        return '(un {} {})'.format(e[1], expr_sexp(e[2], envs))
    if k == 'bin':
        return '(bin {} {} {})'.format(e[1], expr_sexp(e[2], envs), expr_sexp(e[3], envs))
    if k == 'paren':
        return '(paren {})'.format(expr_sexp(e[1], envs))
    raise ValueError(e)


def call_sexp(e, envs):
    params = envs.routines[e[1]]
    return '(call {} ({}) ({}))'.format(_atom(e[1]), ' '.join(_atom(p) for p in params),
                                       ' '.join(rv_sexp(a, envs) for a in e[2]))


def rv_sexp(rv, envs):
    k = rv[0]
    if k == 'num':
        return '(lit {})'.format(val_atom(rv[1]))
    if k == 'str':
        return '(lit {})'.format(val_atom(rv[1]))
    if k == 'macro':
        return '(lit {})'.format(val_atom(envs.macros[rv[1]]))
    if k == 'var':
        return '(var {})'.format(_atom(rv[1]))
    if k == 'reg':
        return '(reg {})'.format(rv[1].upper())
    if k == 'expr':
        return '(expr {})'.format(expr_sexp(rv[1], envs))
    if k == 'call':
        return call_sexp(rv, envs)
    raise ValueError(rv)


def opt_rv(rv, envs):
    return 'none' if rv is None else rv_sexp(rv, envs)


def range_sexp(r, envs):
    if r is None:
        return 'none'
    return '({} {})'.format(rv_sexp(r[0], envs), opt_rv(r[1], envs))


def name_sexp(ns, envs):
    if ns[0] == 'str':
        return '(str {})'.format(_atom(ns[1]))
    if ns[0] == 'macro':
        return '(str {})'.format(_atom(envs.macros[ns[1]]))
    return '(var {})'.format(_atom(ns[1]))


def with_sexp(w, envs):
    if w is None:
        return 'none'
    if w[0] == 'from':
        return '(from {} {} {})'.format(_atom(w[1]), rv_sexp(w[2], envs), rv_sexp(w[3], envs))
    return '(cycle {} {})'.format(_atom(w[1]), opt_rv(w[2], envs))


def pattern_atom(text):
    import vmwire
    from bardolph.lib.time_pattern import TimePattern
    return vmwire.pattern_alts(TimePattern.from_string(text))


def block_sexp(stmts, envs):
    return '(' + ' '.join(stmt_sexp(s, envs) for s in stmts) + ')'


def stmt_sexp(s, envs):
    k = s[0]
    if k == 'setreg':
        return '(setreg {} {})'.format(s[1].upper(), rv_sexp(s[2], envs))
    if k == 'units':
        return '(units {})'.format(s[1].upper())
    if k == 'wait':
        return '(wait)'
    if k == 'break':
        return '(break)'
    if k == 'get':
        return '(get {})'.format(rv_sexp(s[1], envs))
    if k == 'timeat':
        return '(timeat {})'.format(' '.join(pattern_atom(p) for p in s[1]))
    if k == 'assign':
        return '(assign {} {})'.format(_atom(s[1]), rv_sexp(s[2], envs))
    if k == 'define_macro':
        envs.macros[s[1]] = s[2][1]
        return '(defmacro {} {})'.format(_atom(s[1]), val_atom(s[2][1]))
    if k == 'define':
        envs.routines[s[1]] = list(s[2])
        return '(define {} ({}) {})'.format(_atom(s[1]), ' '.join(_atom(p) for p in s[2]),
                                           block_sexp(s[3], envs))
    if k == 'call':
        return call_sexp(s, envs)
    if k == 'return':
        return '(return {})'.format(opt_rv(s[1], envs))
    if k == 'if':
        return '(if {} {} {})'.format(rv_sexp(s[1], envs), block_sexp(s[2], envs),
                                      'none' if s[3] is None else block_sexp(s[3], envs))
    if k == 'print':
        return '(print {})'.format(rv_sexp(s[1], envs))
    if k == 'println':
        return '(println {})'.format(opt_rv(s[1], envs))
    if k == 'printf':
        return '(printf {} ({}))'.format(_atom(s[1]), ' '.join(rv_sexp(a, envs) for a in s[2]))
    if k == 'stage':
        return '(stage {} {} {})'.format(range_sexp(s[1], envs), range_sexp(s[2], envs),
                                         '1' if s[3] else '0')
    if k == 'action':
        if s[2] == 'all':
            return '(actall {})'.format(s[1])
        if s[2] == 'default':
            return '(setdefault)'
        return '(action {} ({}))'.format(s[1], ' '.join(operand_sexp(o, envs) for o in s[2]))
    if k == 'repeat':
        return '(repeat {} {})'.format(hdr_sexp(s[1], envs), block_sexp(s[2], envs))
    raise ValueError(s)


def operand_sexp(op, envs):
    k = op[0]
    if k in ('light', 'group', 'location'):
        return '({} {})'.format(k, name_sexp(op[1], envs))
    if k == 'zone':
        return '(zone {} {} {})'.format(name_sexp(op[1], envs), rv_sexp(op[2], envs),
                                        opt_rv(op[3], envs))
    if k == 'matrix':
        return '(matrix {} {} {} {})'.format(name_sexp(op[1], envs), range_sexp(op[2], envs),
                                             range_sexp(op[3], envs), '1' if op[4] else '0')
    if k == 'matrix_block':
        return '(matrix_block {} {})'.format(name_sexp(op[1], envs), block_sexp(op[2], envs))
    raise ValueError(op)


def hdr_sexp(h, envs):
    f = h[0]
    if f == 'count':
        return '(count {})'.format(rv_sexp(h[1], envs))
    if f == 'range':
        return '(range {} {} {})'.format(_atom(h[1]), rv_sexp(h[2], envs), rv_sexp(h[3], envs))
    if f == 'interp':
        return '(interp {} {} {} {})'.format(rv_sexp(h[1], envs), _atom(h[2]), rv_sexp(h[3], envs),
                                             rv_sexp(h[4], envs))
    if f == 'cycle':
        return '(cycle {} {} {})'.format(rv_sexp(h[1], envs), _atom(h[2]), opt_rv(h[3], envs))
    if f == 'while':
        return '(while {})'.format(rv_sexp(h[1], envs))
    if f == 'forever':
        return '(forever)'
    if f in ('all', 'groups', 'locations'):
        return '({} {} {})'.format(f, _atom(h[1]), with_sexp(h[2], envs))
    if f == 'in':
        items = []
        for item in h[1]:
            rv = ('str', item[1][1]) if item[1][0] == 'str' else item[1]
            items.append('({} {})'.format(item[0], rv_sexp(rv, envs)))
        return '(in ({}) {} {})'.format(' '.join(items), _atom(h[2]), with_sexp(h[3], envs))
    raise ValueError(h)


def to_sexp(stmts):
    envs = SexpEnv()
    return block_sexp(stmts, envs)
