#!/usr/bin/env python3
"""C14 — switching units re-expresses settings without changing what the lights get."""
import itertools
import json
import os
import sys
from fractions import Fraction as F

sys.path.insert(0, os.path.dirname(os.path.abspath(__file__)))
from core import Check, run_check  # noqa: E402
import units_common as uc  # noqa: E402
from units_common import KNIFE, HALF, U16  # noqa: E402

REGS = uc.REG_NAMES     # hue saturation brightness kelvin red green blue duration time
PATTERN = 'P'           # marks a `time at …` pattern held by the time register

# the manual's table "Changed When Switching Units Mode" (docs/language.rst)
MANUAL = {
    ('logical', 'raw'): {'time', 'duration', 'hue', 'saturation', 'brightness'},
    ('raw', 'logical'): {'time', 'duration', 'hue', 'saturation', 'brightness'},
    ('rgb', 'raw'): {'time', 'duration', 'hue', 'saturation', 'brightness'},
    ('raw', 'rgb'): {'time', 'duration', 'red', 'green', 'blue'},
    ('rgb', 'logical'): {'hue', 'saturation', 'brightness'},
    ('logical', 'rgb'): {'red', 'green', 'blue'},
}
# register contents on which every documented rewrite is visible (Lean: witnessRegs)
WITNESS = {
    'raw': {'hue': 12000, 'saturation': 30000, 'brightness': 20000, 'kelvin': 2700, 'red': 10,
            'green': 20, 'blue': 30, 'duration': 2500, 'time': 1500},
    'logical': {'hue': 120, 'saturation': 50, 'brightness': 25, 'kelvin': 2700, 'red': 10,
                'green': 20, 'blue': 30, 'duration': 2.5, 'time': 1.5},
}
WITNESS['rgb'] = WITNESS['logical']
PRINT_ALL = ' '.join('print ' + r for r in REGS)
PRINT_NO_TIME = ' '.join('print ' + r for r in REGS if r != 'time')


class SCase:
    """start mode, register contents, chain of `units` switches"""
    __slots__ = ('mode', 'regs', 'chain', 'pattern', 'kind', 'wrap', 'serial')
    _serial = [0]
    _rotation = [0]
    # where each `units` statement of the chain stands: in line; after a branch that is not taken
    # and names the same mode; in a routine defined at the top and called here; in a loop of one
    # pass; in the else of a condition whose other branch names the same mode
    WRAPS = ('plain', 'after-dead-branch', 'routine', 'loop', 'else-branch', 'plain')
    # the command that transmits: every kind of operand in turn (light twice as often)
    KIND_CYCLE = ('light', 'zone', 'group', 'light', 'all', 'matrix', 'location', 'light', 'power_light',
                  'power_all', 'power_group')

    def __init__(self, mode, regs, chain, pattern=None, kind=None):
        self.mode, self.regs, self.chain, self.pattern = mode, regs, tuple(chain), pattern
        if kind is None:
            SCase._rotation[0] += 1
            kind = SCase.KIND_CYCLE[SCase._rotation[0] % len(SCase.KIND_CYCLE)]
        self.kind = kind
        self.wrap = SCase.WRAPS[(SCase._rotation[0] // 2) % len(SCase.WRAPS)]
        SCase._serial[0] += 1
        self.serial = SCase._serial[0]

    def command(self):
        return uc.KINDS[self.kind][0] + ' wait'

    def setup(self):
        parts = []
        for r in REGS:
            if r == 'time' and self.pattern:
                parts.append('time at ' + self.pattern)
            else:
                parts.append('{} {}'.format(r, uc.num_text(self.regs[r])))
        # `time 0` first: a pattern left by the previous case of a batch must not meet `units`
        return 'time 0 units {} {}'.format(self.mode, ' '.join(parts))

    def script_without(self):
        return '{}\n{}\n'.format(self.setup(), self.command())

    def script_with(self, printing=False):
        pr = (PRINT_NO_TIME if self.pattern else PRINT_ALL)
        body = [self.setup()]
        if self.wrap == 'routine':
            body = ['define sw{}_{} begin units {} end'.format(self.serial, k, m)
                    for k, m in enumerate(self.chain)] + body
        if printing:
            body.append(pr)
        for k, m in enumerate(self.chain):
            body.append({'plain': 'units {m}',
                         'after-dead-branch': 'if {{1 > 2}} begin units {m} end units {m}',
                         'routine': 'sw{s}_{k}',
                         'loop': 'repeat 1 begin units {m} end',
                         'else-branch': 'if {{1 > 2}} begin units {m} end else begin units {m} end',
                         }[self.wrap].format(m=m, k=k, s=self.serial))
            if printing:
                body.append(pr)
        body.append(self.command())
        return '\n'.join(body) + '\n'

    def describe(self):
        return {'start_mode': self.mode, 'chain': list(self.chain), 'command': self.command(),
                'where_the_units_statements_stand': self.wrap,
                'regs': {k: repr(v) for k, v in self.regs.items()},
                'time_pattern': self.pattern,
                'script_with_switch': self.script_with(),
                'script_without_switch': self.script_without(), 'population': uc.POP}


def split_runs(trace, events):
    """cut a batch trace at the `println "@"` marks -> list of (outs, pauses, waits) and the
    events are taken in order, one per finished case"""
    runs = []
    cur = None
    for e in trace:
        if e[0] == 'out' and e[1] == '@':
            cur = {'outs': [], 'pause': None, 'wait_until': None, 'done': False}
            runs.append(cur)
        elif cur is None:
            continue
        elif e[0] == 'out' and e[1] == '$':
            cur['done'] = True
        elif e[0] == 'out':
            cur['outs'].append(e[1])
        elif e[0] == 'pause':
            cur['pause'] = e[1]
        elif e[0] == 'wait_until':
            cur['wait_until'] = e[1]
    return runs


class C14:
    def __init__(self, chk):
        self.chk = chk
        self.bench = uc.Bench()
        self.stats = {}
        self.requests = []
        self.knife = 0
        self.max_gap = 0.0

    def bump(self, k, n=1):
        self.stats[k] = self.stats.get(k, 0) + n

    def execute(self, scripts, kinds=None):
        """run the given per-case scripts batched; each is wrapped in `println "@"` … `print "$"`.
        -> list of dict(outs, pause, wait_until, event) or 'aborted'"""
        results = [None] * len(scripts)
        kinds = kinds or ['light'] * len(scripts)
        start = 0
        while start < len(scripts):
            text = ''.join('print "@"\n{}print "$"\n'.format(s) for s in scripts[start:])
            events, trace, finished, job = self.bench.run(text)
            if events is None:
                raise RuntimeError('generated script rejected: ' + job.compile_errors[:300] + text[:300])
            runs = split_runs(trace, events)
            pos = 0
            i = start
            for k, run in enumerate(runs):
                if not run['done']:
                    results[i] = 'aborted'
                    i += 1
                    break
                want = uc.KINDS[kinds[i]][1]
                mine = events[pos:pos + len(want)]
                pos += len(want)
                if [(e[0], e[1]) for e in mine] == [tuple(w) for w in want]:
                    fields = uc.event_fields(kinds[i], mine)
                    colour, _power, dur = fields[0]
                    # every device addressed gets the same colour and duration
                    run['event'] = (mine[0][0], mine[0][1], (colour, dur)) \
                        if all(f == fields[0] for f in fields) else None
                else:
                    run['event'] = None
                results[i] = run
                i += 1
            if i == start:
                results[i] = 'aborted'
                i += 1
            start = i
        return results

    # ------------------------------------------------------------------ oracle
    def judge(self, case, base, switched):
        chk = self.chk
        chk.count()
        self.bump('start:' + case.mode)
        self.bump('chain_len:{}'.format(len(case.chain)))
        modes = [case.mode] + list(case.chain)
        trans = [(a, b) for a, b in zip(modes, modes[1:])]
        for tr in trans:
            self.bump('transition:{}->{}'.format(*tr))
        if base == 'aborted' or base is None:
            chk.violation('script-without-switch-aborted', 'the reference script aborted',
                          case.describe())
            return None
        sig_chain = '->'.join(modes) if len(case.chain) == 1 else 'chain'
        if switched == 'aborted' or switched is None:
            chk.violation('switch-aborts-script:{}{}'.format(sig_chain, ':time-pattern' if case.pattern else ''),
                          'the script with `units {}` aborted'.format(' '.join(case.chain)),
                          case.describe())
            return None
        nreg = len(REGS) - (1 if case.pattern else 0)
        names = [r for r in REGS if not (case.pattern and r == 'time')]
        outs = switched['outs']
        if len(outs) != nreg * (len(case.chain) + 1):
            chk.violation('print-count', 'unexpected number of printed values', case.describe())
            return None
        states = [dict(zip(names, outs[i * nreg:(i + 1) * nreg])) for i in range(len(case.chain) + 1)]
        # printed registers: what the table of the manual allows to change
        for step, (a, b) in enumerate(trans):
            before, after = states[step], states[step + 1]
            allowed = MANUAL.get((a, b), set())
            for r in names:
                same = (before[r] == after[r])
                if r == 'kelvin' and not same:
                    chk.violation('kelvin-altered:{}->{}'.format(a, b),
                                  '`units {}` in {} units changed kelvin from {!r} to {!r}'.format(
                                      b, a, before[r], after[r]),
                                  dict(case.describe(), step=step, before=repr(before), after=repr(after)))
                elif r not in allowed and not same:
                    chk.violation(
                        ('same-mode-not-noop:{}' if a == b else 'rewrites-undocumented:{}->{}:' + r).format(a, b),
                        '`units {}` in {} units changed {} from {!r} to {!r}'.format(
                            b, a, r, before[r], after[r]),
                        dict(case.describe(), step=step, register=r))
        # … and does rewrite what it lists (checked on register contents chosen so that every
        # re-expression is visible)
        if case.pattern is None and len(trans) == 1 and case.regs is WITNESS.get(case.mode):
            a, b = trans[0]
            for r in MANUAL.get((a, b), ()):
                if states[0][r] == states[1][r]:
                    chk.violation('documented-rewrite-missing:{}->{}:{}'.format(a, b, r),
                                  '`units {}` in {} units left {} at {!r}'.format(b, a, r, states[0][r]),
                                  dict(case.describe(), register=r))
        # the two executions: colour, duration, pending delay
        e0, e1 = base['event'], switched['event']
        if e0 is None or e1 is None:
            chk.violation('no-transmission', 'a `set` transmitted nothing', case.describe())
            return states
        (c0, d0), (c1, d1) = e0[2], e1[2]
        rgb_involved = 'rgb' in modes
        if c0 is None or c1 is None:
            pass        # a power command carries no colour: duration and delay only
        elif c0[3] != c1[3]:
            chk.violation('wire-kelvin-differs:' + sig_chain,
                          'kelvin transmitted as {} with the switch, {} without'.format(c1[3], c0[3]),
                          case.describe())
        if c0 is None or c1 is None:
            pass
        elif not rgb_involved:
            for i, n in enumerate(('hue', 'saturation', 'brightness')):
                d = uc.distance(c1[i], c0[i], i == 0)
                if d > 1:
                    chk.violation('wire-colour-differs:' + sig_chain,
                                  '{} transmitted as {} with the switch, {} without'.format(n, c1[i], c0[i]),
                                  dict(case.describe(), with_switch=c1, without_switch=c0))
                    break
                if d == 1:
                    self.bump('wire_off_by_one')
        else:
            n_round = sum(1 for tr in trans if tr == ('rgb', 'raw'))
            tol = F(8 + 4 * n_round, U16)
            rgb0 = uc.alt_hsv_to_rgb(*(F(x, U16) for x in c0[:3]))
            rgb1 = uc.alt_hsv_to_rgb(*(F(x, U16) for x in c1[:3]))
            diff = max(abs(a - b) for a, b in zip(rgb0, rgb1))
            if diff > tol:
                chk.violation('wire-colour-differs:' + sig_chain,
                              'the colour transmitted with the switch {} differs from {} without '
                              '(rgb distance {:.6f})'.format(c1, c0, float(diff)),
                              dict(case.describe(), with_switch=c1, without_switch=c0))
        if d0 != d1:
            exact = F(case.regs['duration']) * (1 if case.mode == 'raw' else 1000)
            near_tie = abs(exact - (exact.numerator // exact.denominator) - HALF) < KNIFE
            if abs(d0 - d1) == 1 and near_tie:
                self.knife += 1
            else:
                chk.violation('wire-duration-differs:' + sig_chain,
                              'duration transmitted as {} ms with the switch, {} ms without'.format(d1, d0),
                              case.describe())
        p0, p1 = base['pause'], switched['pause']
        if case.pattern:
            w0, w1 = base['wait_until'], switched['wait_until']
            if w0 is None or w1 is None or [w0.match(h, m) for h in range(24) for m in range(60)] != \
                    [w1.match(h, m) for h in range(24) for m in range(60)]:
                chk.violation('time-pattern-lost:' + sig_chain,
                              'the wait for a time of day differs with the switch', case.describe())
        elif (p0 is None) != (p1 is None) or (p0 is not None and abs(p0 - p1) > 1e-9 * max(abs(p0), 1e-3)):
            chk.violation('pending-delay-differs:' + sig_chain,
                          'the delay is {!r} s with the switch, {!r} s without'.format(p1, p0),
                          case.describe())
        return states

    # ------------------------------------------------------------------ model leg (step-wise)
    def model_steps(self, case, states):
        modes = [case.mode] + list(case.chain)
        for step, (a, b) in enumerate(zip(modes, modes[1:])):
            before, after = states[step], states[step + 1]
            args = [a] + [PATTERN if (r == 'time' and case.pattern) else uc.frac_text(before[r])
                          for r in REGS] + ['0', '--', b]

            def cb(answer, before=before, after=after, a=a, b=b, case=case, step=step):
                parts = answer.split(' ; ')
                fields = parts[0].split()
                if len(parts) < 3 or len(fields) != 10 or fields[0] != b:
                    self.chk.disagreement('u.switch', case.describe(), repr(after), answer)
                    return
                margin = None
                if len(parts) > 3 and parts[3].strip():
                    margin = uc.tie_margin([F(x) for x in parts[3].split()])
                for r, txt in zip(REGS, fields[1:]):
                    if txt == PATTERN:
                        continue
                    want = F(txt)
                    got = F(after[r])
                    gap = abs(got - want)
                    rel = float(gap / max(abs(want), F(1, 1000)))
                    if rel < 1e-6 and rel > self.max_gap:
                        self.max_gap = rel
                    if rel <= 1e-9 or gap <= F(1, 10 ** 12):
                        continue
                    if a == 'rgb' and r == 'hue' and gap <= uc.hue_float_slack(
                            before['red'], before['green'], before['blue'],
                            U16 if b == 'raw' else 360):
                        continue            # hue of a nearly grey colour: ulp / spread
                    if gap == 1 and margin is not None and margin < KNIFE:
                        self.knife += 1
                        continue
                    self.chk.disagreement(
                        'u.switch:{}->{}'.format(a, b),
                        dict(case.describe(), step=step, register=r, before=repr(before)),
                        repr(after[r]), txt)
                    return
            self.requests.append(('u.switch', args, cb))

    def run_cases(self, cases):
        for i in range(0, len(cases), 1500):
            chunk = cases[i:i + 1500]
            base = self.execute([c.script_without() for c in chunk], [c.kind for c in chunk])
            sw = self.execute([c.script_with(printing=True) for c in chunk], [c.kind for c in chunk])
            for c, b, s in zip(chunk, base, sw):
                states = self.judge(c, b, s)
                if states:
                    self.model_steps(c, states)
                    self.chk.nontrivial_case((c.mode, c.chain, c.pattern, tuple(
                        float(c.regs[r]) for r in REGS)))

    def flush_requests(self):
        reqs, self.requests = self.requests, []
        for i in range(0, len(reqs), 50000):
            part = reqs[i:i + 50000]
            answers = self.chk.driver.ask_many([(c, a) for c, a, _ in part])
            for (_, _, cb), ans in zip(part, answers):
                cb(ans)
        self.bump('model_requests', len(reqs))


def grid_value(rng, lo, hi, denom=64):
    return rng.randrange(lo * denom, hi * denom + 1) / float(denom)


def random_regs(rng, mode, edge=False):
    """register contents within the documented ranges for the mode in force; the registers
    the mode does not use hold values of their own documented ranges"""
    def pick(lo, hi, ends):
        if edge and rng.random() < 0.5:
            return rng.choice(ends)
        v = grid_value(rng, lo, hi)
        return int(v) if rng.random() < 0.3 and v == int(v) else v
    regs = {}
    if mode == 'raw':
        regs['hue'] = rng.choice([0, 1, 65534, 65535, 32767, 32768]) if edge and rng.random() < 0.5 \
            else rng.randrange(0, 65536)
        regs['saturation'] = rng.choice([0, 1, 65534, 65535]) if edge and rng.random() < 0.5 \
            else rng.randrange(0, 65536)
        regs['brightness'] = rng.choice([0, 1, 65534, 65535]) if edge and rng.random() < 0.5 \
            else rng.randrange(0, 65536)
        regs['duration'] = rng.choice([0, 1, 999, 1000, 2500, rng.randrange(0, 10 ** 7)])
        regs['time'] = rng.choice([0, 1, 1500, rng.randrange(0, 10 ** 7)])
    else:
        regs['hue'] = pick(0, 360, [0, 360, 0.0, 360.0, 180, 359.984375, 0.015625, 120, 240, 60])
        regs['saturation'] = pick(0, 100, [0, 100, 0.0, 100.0, 50, 0.015625, 99.984375])
        regs['brightness'] = pick(0, 100, [0, 100, 0.0, 100.0, 50, 0.015625, 99.984375])
        regs['duration'] = rng.choice([0, 2, 2.5, 0.001, grid_value(rng, 0, 3600, 1024)])
        regs['time'] = rng.choice([0, 1.5, 10, grid_value(rng, 0, 3600, 1024)])
    for r in ('red', 'green', 'blue'):
        regs[r] = pick(0, 100, [0, 100, 0.0, 100.0, 50, 25, 0.015625])
    if edge and mode == 'rgb' and rng.random() < 0.3:
        v = regs['red']
        regs['green'] = v
        if rng.random() < 0.5:
            regs['blue'] = v
    regs['kelvin'] = rng.choice([0, 1500, 2700, 2700.5, 2701.5, 3500.25, 9000, 65535,
                                 rng.randrange(0, 9001), grid_value(rng, 1500, 9000)])
    return regs


def main():
    chk = Check('C14')
    if '--replay' in sys.argv:
        return replay(sys.argv[sys.argv.index('--replay') + 1])
    chk.lean_phase(sections={'Units'})
    # a proof or the tie no longer checks: search with the thorough-sized generation (DESIGN §5)
    chk.big = chk.thorough or bool(chk.broken)
    chk.coverage['escalated_search'] = bool(chk.broken) and not chk.thorough
    t = C14(chk)
    rng = chk.rng
    quick = not chk.big
    cases = []
    # ---- single transitions (all nine ordered pairs, incl. switches to the mode in force)
    per = 1500 if quick else 6000
    for a in uc.MODES:
        for b in uc.MODES:
            for i in range(per if a != b else per // 6):
                cases.append(SCase(a, random_regs(rng, a, edge=(i % 3 == 0)), [b]))
    # hand-picked: the manual's examples and the corners of the ranges
    for regs, a, b in [
            ({'hue': 120, 'saturation': 100, 'brightness': 100, 'kelvin': 2500, 'time': 1.5,
              'duration': 1.5, 'red': 7, 'green': 8, 'blue': 9}, 'logical', 'rgb'),
            ({'hue': 0, 'saturation': 0, 'brightness': 0, 'kelvin': 2500, 'time': 2.5,
              'duration': 3.5, 'red': 0, 'green': 0, 'blue': 100}, 'rgb', 'raw'),
            ({'hue': 180, 'saturation': 50, 'brightness': 50, 'kelvin': 2700, 'time': 10,
              'duration': 2.5, 'red': 1, 'green': 2, 'blue': 3}, 'logical', 'raw'),
            ({'hue': 30000, 'saturation': 65535, 'brightness': 32767, 'kelvin': 2700, 'time': 10000,
              'duration': 2500, 'red': 1, 'green': 2, 'blue': 3}, 'raw', 'logical'),
            ({'hue': 65535, 'saturation': 65535, 'brightness': 65535, 'kelvin': 2700.5, 'time': 0,
              'duration': 0, 'red': 1, 'green': 2, 'blue': 3}, 'raw', 'rgb'),
            ({'hue': 1, 'saturation': 2, 'brightness': 3, 'kelvin': 2700.5, 'time': 0,
              'duration': 0, 'red': 10, 'green': 20, 'blue': 30}, 'rgb', 'raw'),
            ({'hue': 1, 'saturation': 2, 'brightness': 3, 'kelvin': 2701.5, 'time': 1,
              'duration': 1, 'red': 10, 'green': 20, 'blue': 30}, 'rgb', 'logical')]:
        cases.append(SCase(a, regs, [b]))
    for a in uc.MODES:
        for b in uc.MODES:
            if a != b:
                cases.append(SCase(a, WITNESS[a], [b]))
    t.stats['single_transition_cases'] = len(cases)
    # ---- chains of two to four switches: every chain, several register sets each
    n_chain = 0
    for length in (2, 3, 4):
        for chain in itertools.product(uc.MODES, repeat=length):
            for a in uc.MODES:
                reps = (6 if length < 4 else 3) if quick else 12
                for i in range(reps):
                    cases.append(SCase(a, random_regs(rng, a, edge=(i % 2 == 1)), chain))
                    n_chain += 1
    t.stats['chain_cases'] = n_chain
    # ---- the time register holds a time-of-day pattern
    for a in uc.MODES:
        for b in uc.MODES:
            for pat in ('8:00', '*:30', '1*:*5'):
                cases.append(SCase(a, random_regs(rng, a), [b], pattern=pat))
        for chain in itertools.product(uc.MODES, repeat=2):
            cases.append(SCase(a, random_regs(rng, a), chain, pattern='8:00'))
    rng.shuffle(cases)
    t.run_cases(cases)
    t.flush_requests()

    t.stats['scripts_run'] = t.bench.scripts_run
    t.stats['knife_edge'] = t.knife
    t.stats['max_float_gap_relative'] = t.max_gap
    chk.coverage['distribution'] = t.stats
    chk.coverage['knife_edge_cases'] = t.knife
    chk.coverage['max_float_gap'] = t.max_gap
    chk.coverage['rule'] = (
        'register contents drawn from a 1/64 grid (times 1/1024) within the documented ranges of '
        'the mode in force (raw: integers 0..65535, integer ms), a third of them at range '
        'corners; all nine ordered mode pairs; every chain of 2, 3 and 4 switches from every '
        'start mode; each case is two real script executions (with / without the switches) whose '
        'transmitted colour, duration and pending delay are compared, plus the registers printed '
        'before and after every switch; non-trivial = distinct (start mode, chain, registers)')
    chk.sample({'script': 'units rgb kelvin 2700.5 red 10 green 20 blue 30 units raw print kelvin',
                'expected': 2700.5})
    chk.sample({'script': 'units logical hue 180 … set "A"  vs  units logical hue 180 … units raw set "A"',
                'transmitted': 'the same [32768, …] in both'})
    chk.assumptions += [
        'devices are the simulated lifxlan objects of harness/simnet.py under the real wrappers',
        'colours are compared as colours (hsv->rgb of the transmitted integers, tolerance '
        '(8 + 4·#(rgb->raw switches))/65535) when rgb units are involved, else per component '
        'within one raw unit with hue 65535 = 0',
        'kelvin within the documented range (non-negative)',
    ]
    if chk.thorough:
        chk.leanchecker()
    chk.finish()


def replay(path):
    with open(path) as f:
        data = json.load(f)
    rep = data.get('replay', {})
    bench = uc.Bench()
    for key in ('script_without_switch', 'script_with_switch', 'script'):
        if rep.get(key):
            events, trace, finished, _ = bench.run(rep[key])
            print(key + ':', rep[key].strip().replace('\n', ' | '))
            print('  finished:', finished)
            for e in events or []:
                print('  ', e)
            for e in trace:
                print('   clock/output:', e)
    sys.exit(0)


if __name__ == '__main__':
    run_check(main)
