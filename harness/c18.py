#!/usr/bin/env python3
"""C18 — replaying a captured snapshot script restores the captured light state exactly."""
import copy
import os
import sys

sys.path.insert(0, os.path.dirname(os.path.abspath(__file__)))
from core import Check, run_check, percent_encode  # noqa: E402
import runimpl  # noqa: E402
import simnet  # noqa: E402
import vmwire  # noqa: E402

NAME_CHARS = ['a', 'B', 'z', '0', '9', ' ', '_', '-', '.', ',', ':', ';', '#', '{', '}', '[', ']',
              '(', ')', '*', '/', '+', '<', '>', '=', '!', '%', '^', '&', "'", '\\', '|', '~', '`',
              '$', '@', '?', 'é', 'Ω', '日', '\t']
KEYWORDS = ['set', 'end', 'begin', 'on', 'off', 'hue', 'and', 'zone', 'all', 'time at 8:00',
            'units logical', '12:30', 'define x 5', '-5', '0.5', 'back\\', '\\', 'a\\b']


def rand_color(rng):
    edge = [0, 1, 65534, 65535, 32767, 32768]
    return [rng.choice(edge) if rng.random() < 0.3 else rng.randrange(65536) for _ in range(3)] + \
        [rng.choice([0, 1500, 2500, 2700, 3500, 6500, 9000, 65535])]


def rand_name(rng, used):
    while True:
        k = rng.random()
        if k < 0.25:
            name = rng.choice(['Top', 'Lamp', 'Strip', 'Candle', 'Desk lamp', 'a'])
        elif k < 0.4:
            name = rng.choice(KEYWORDS)
        else:
            name = ''.join(rng.choice(NAME_CHARS) for _ in range(rng.randint(1, 8)))
        if name and name not in used:
            used.add(name)
            return name


def rand_population(rng, max_lights):
    used = set()
    pop = []
    for _ in range(rng.choice([0, 1, 1, 2, 3, 4, max_lights])):
        kind = rng.choice(['plain', 'plain', 'multizone', 'matrix'])
        spec = {'label': rand_name(rng, used), 'group': rng.choice(['g', 'h']),
                'location': rng.choice(['l', 'm']), 'kind': kind, 'color': rand_color(rng),
                'power': rng.choice([0, 65535])}
        if kind == 'multizone':
            spec['zones'] = [rand_color(rng) for _ in range(rng.choice([1, 2, 8, 16, 82]))]
        if kind == 'matrix':
            spec['height'] = rng.choice([1, 2, 5, 6, 8])
            spec['width'] = rng.choice([1, 3, 5, 8])
            spec['cells'] = [rand_color(rng) for _ in range(spec['height'] * spec['width'])]
        pop.append(spec)
    return pop


def observable(spec):
    """the part of a device's state the property talks about"""
    if spec['kind'] == 'plain':
        return ('plain', list(spec['color']), 65535 if spec['power'] else 0)
    if spec['kind'] == 'multizone':
        return ('multizone', [list(z) for z in spec['zones']])
    return ('matrix', [list(c) for c in spec['cells']])


def device_observable(dev):
    if dev.kind == 'plain':
        return ('plain', list(dev.color), dev.power)
    if dev.kind == 'multizone':
        return ('multizone', [list(z) for z in dev.zones])
    return ('matrix', [None if c is None else list(c) for c in dev.cells])


def enc_pop_state(pop):
    out = []
    for s in pop:
        kind = s['kind']
        body = '.'.join(str(x) for x in s['color']) + '|' + str(65535 if s['power'] else 0)
        if kind == 'multizone':
            body = ','.join('.'.join(str(x) for x in z) for z in s['zones'])
        elif kind == 'matrix':
            body = '{}x{}:'.format(s['height'], s['width']) + \
                ','.join('.'.join(str(x) for x in c) for c in s['cells'])
        out.append(kind + '\x1d' + s['label'] + '\x1d' + body)
    return out


def capture_button(directory):
    """the web Capture button: `WebApp.snapshot()` writes `__snapshot__.ls` into the script
    directory; returns the file's text"""
    from core import REPO
    if REPO not in sys.path:
        sys.path.insert(0, REPO)
    from bardolph.lib import settings
    settings.Settings._the_config['script_path'] = directory
    settings.Settings._the_config['manifest_file_name'] = None
    from web.web_app import WebApp
    WebApp().snapshot()
    with open(os.path.join(directory, '__snapshot__.ls')) as f:
        return f.read()


def web_cycles(chk, rng, stats, n):
    """capture and replay as the web front end does, several times over with ONE WebApp: Capture
    (WebApp.snapshot), the lights change, the snapshot script is queued (WebApp.queue_file) and
    runs; then the lights are captured in another state, change again, and the snapshot script is
    queued again.  Every replay restores the state of the capture before it."""
    import shutil
    import tempfile
    import time as _time
    from core import REPO
    if REPO not in sys.path:
        sys.path.insert(0, REPO)
    from bardolph.lib import settings
    from web.web_app import WebApp

    def restate(pop):
        out = copy.deepcopy(pop)
        for s in out:
            s['color'] = rand_color(rng)
            s['power'] = rng.choice([0, 65535])
            if 'zones' in s:
                s['zones'] = [rand_color(rng) for _ in s['zones']]
            if 'cells' in s:
                s['cells'] = [rand_color(rng) for _ in s['cells']]
        return out

    stats['web_cycles'] = 0
    for _ in range(n):
        base = [s for s in rand_population(rng, 4) if not s['label'].endswith('\\')]
        scratch = tempfile.mkdtemp(prefix='c18_web_')
        try:
            simnet.install(copy.deepcopy(base))
            settings.Settings._the_config['script_path'] = scratch
            settings.Settings._the_config['manifest_file_name'] = None
            app = WebApp()
            for cycle in range(3):
                captured = restate(base)
                simnet.install(copy.deepcopy(captured))
                settings.Settings._the_config['script_path'] = scratch
                try:
                    app.snapshot()
                    net, ls, trace = simnet.install(restate(base))
                    settings.Settings._the_config['script_path'] = scratch
                    app.queue_file('__snapshot__.ls')
                except Exception as ex:  # noqa
                    chk.count()
                    chk.violation('capture-raises', 'capture / replay through the web application raised {}: {}'.format(
                        type(ex).__name__, ex), {'population': captured, 'cycle': cycle + 1})
                    break
                deadline = _time.monotonic() + 5
                while app._jobs.has_jobs() and _time.monotonic() < deadline:
                    _time.sleep(0.002)
                chk.count()
                stats['web_cycles'] += 1
                if app._jobs.has_jobs():
                    app._jobs.stop_current()
                    chk.violation('snapshot-replay-aborts', 'the queued snapshot script did not finish',
                                  {'population': captured, 'cycle': cycle})
                    break
                bad = [s for s in captured if device_observable(net.device(s['label'])) != observable(s)]
                if bad:
                    s0 = bad[0]
                    chk.violation('replay-runs-an-earlier-capture' if cycle else 'snapshot-replay-state-differs',
                                  'capture/replay cycle {} through one web application: {} light {!r} captured {} / '
                                  'after replay {}'.format(cycle + 1, s0['kind'], s0['label'], str(observable(s0))[:100],
                                                           str(device_observable(net.device(s0['label'])))[:100]),
                                  {'population': captured, 'cycle': cycle + 1,
                                   'how': 'harness/c18.py web_cycles: WebApp.snapshot / WebApp.queue_file'})
                    break
                if captured:
                    chk.nontrivial_case(('web-cycle', cycle, enc_pop_state(captured)[0]))
        finally:
            shutil.rmtree(scratch, ignore_errors=True)


def main():
    chk = Check('C18', extra_modules=['Bardolph.Proofs.SemSteps'])
    chk.lean_phase(sections=set())
    rng = chk.rng
    n = 8000 if chk.thorough else 1500
    stats = {'populations': 0, 'lights': 0, 'kinds': {}, 'compiled': 0, 'restored': 0,
             'hostile_names': 0, 'empty_populations': 0, 'text_mismatch': 0}
    reqs = []
    texts = []
    for i in range(n):
        pop = rand_population(rng, 6 if chk.thorough else 4)
        stats['populations'] += 1
        stats['lights'] += len(pop)
        for s in pop:
            stats['kinds'][s['kind']] = stats['kinds'].get(s['kind'], 0) + 1
            if any(not (c.isalnum() or c == ' ') for c in s['label']):
                stats['hostile_names'] += 1
        if not pop:
            stats['empty_populations'] += 1
        net, ls, trace = simnet.install(copy.deepcopy(pop))
        from bardolph.controller.snapshot import ScriptSnapshot
        chk.count()
        try:
            text = ScriptSnapshot().generate(None).text
            if i % 4 == 0:
                # through the Capture button, into a directory that already holds an earlier
                # capture (of more lights, longer values): the file must be exactly the new script
                import shutil
                import tempfile
                scratch = tempfile.mkdtemp(prefix='c18_')
                try:
                    earlier = rand_population(rng, 6) + copy.deepcopy(pop)
                    for k, s in enumerate(earlier):
                        s['label'] = '{} earlier capture {}'.format(s['label'], k)
                    simnet.install(earlier)
                    capture_button(scratch)
                    # … which is replayed from its file, as the web front end does (queue_file)
                    from bardolph.controller.script_job import ScriptJob
                    snap_path = os.path.join(scratch, '__snapshot__.ls')
                    first_job = ScriptJob.from_file(snap_path)
                    if first_job.program:
                        first_job.execute()
                    net, ls, trace = simnet.install(copy.deepcopy(pop))
                    filed = capture_button(scratch)
                    # replaying the file again must run the NEW capture
                    again = ScriptJob.from_file(snap_path)
                    fresh = ScriptJob.from_string(filed)
                    enc = lambda prog: None if prog is None else [vmwire.enc_instr_fixed(x) for x in prog]  # noqa
                    if enc(again.program) != enc(fresh.program):
                        chk.violation('replay-runs-an-earlier-capture',
                                      'the program loaded from the snapshot file after a second capture is not the '
                                      'program of the file\'s text ({} vs {} instructions)'.format(
                                          len(again.program or []), len(fresh.program or [])),
                                      {'population': pop, 'file': filed})
                finally:
                    shutil.rmtree(scratch, ignore_errors=True)
                stats['captures_through_button'] = stats.get('captures_through_button', 0) + 1
                if filed != text:
                    k = next((j for j, (a, b) in enumerate(zip(filed, text)) if a != b), min(len(filed), len(text)))
                    chk.violation('capture-file-differs-from-captured-script',
                                  'after a second capture into the same directory the snapshot file ({} '
                                  'characters) is not the captured script ({} characters); they differ from '
                                  'character {}: file {!r}'.format(len(filed), len(text), k, filed[k:k + 40]),
                                  {'population': pop, 'file': filed, 'script': text})
                    text = filed
        except Exception as ex:  # noqa
            chk.violation('capture-raises', 'ScriptSnapshot.generate raised {}: {}'.format(
                type(ex).__name__, ex), {'population': pop})
            continue
        # a different state at replay time
        other = copy.deepcopy(pop)
        for s in other:
            s['color'] = rand_color(rng)
            s['power'] = 65535 - (65535 if s['power'] else 0) if rng.random() < 0.7 else s['power']
            if 'zones' in s:
                s['zones'] = [rand_color(rng) for _ in s['zones']]
            if 'cells' in s:
                s['cells'] = [rand_color(rng) for _ in s['cells']]
        res = runimpl.run_script(text, other)
        trailing_backslash = any(s['label'].endswith('\\') for s in pop)
        if not res.compiled:
            sig = 'snapshot-does-not-compile'
            if trailing_backslash:
                sig = 'snapshot-name-ending-in-backslash'
            elif not pop:
                sig = 'snapshot-of-no-lights-does-not-compile'
            chk.violation(sig, 'the captured script is rejected: {}'.format(res.errors.strip()[:100]),
                          {'population': pop, 'script': text})
            continue
        stats['compiled'] += 1
        if res.fault is not None:
            chk.violation('snapshot-replay-aborts', 'replay aborted: ' + res.fault,
                          {'population': pop, 'script': text})
            continue
        bad = []
        for s in pop:
            dev = res.net.device(s['label'])
            if device_observable(dev) != observable(s):
                bad.append((s['label'], s['kind']))
        if bad:
            label, kind = bad[0]
            chk.violation('snapshot-replay-state-differs',
                          '{} light {!r}: captured {} / after replay {}'.format(
                              kind, label,
                              str(observable(next(s for s in pop if s['label'] == label)))[:120],
                              str(device_observable(res.net.device(label)))[:120]),
                          {'population': pop, 'replay_state_before': other, 'script': text})
        else:
            stats['restored'] += 1
            if pop:
                chk.nontrivial_case(text)
        if len(chk.coverage['samples']) < 3 and pop:
            chk.sample({'names': [s['label'] for s in pop], 'script_head': text[:200]})
        reqs.append(('snap.text', enc_pop_state(pop)))
        texts.append(text)
    # ---- tie: the model's snapshot text, byte for byte
    web_cycles(chk, rng, stats, 120 if chk.thorough else 25)
    answers = chk.driver.ask_many(reqs) if reqs else []
    for text, a in zip(texts, answers):
        if a != percent_encode(text):
            stats['text_mismatch'] += 1
            chk.disagreement('snap.text', {'impl': text[:300]}, percent_encode(text)[:200], a[:200])
    chk.coverage['distribution'] = stats
    chk.coverage['rule'] = (
        'random populations of plain, multizone (1-82 zones) and matrix (1x1-8x8) lights with '
        'hostile names (punctuation, keywords, unicode, tabs) and random raw states incl. the '
        'extremes; the REAL ScriptSnapshot text is compiled and run by the real stack against the '
        'same simulated lights in a different random state; the devices must end in exactly the '
        'captured state; the text is also compared byte for byte with the model; non-trivial = '
        'distinct non-empty population restored exactly')
    chk.assumptions += ['light names contain no double quote and no line break (the property '
                        'excludes them)']
    if chk.thorough:
        chk.leanchecker()
    chk.finish()


if __name__ == '__main__':
    run_check(main)
