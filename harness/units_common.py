"""Shared by the C07 and C14 checks: building and running real scripts on simulated devices,
reading what reached the devices, exact-fraction specifications, driver request encoding."""
from decimal import Decimal
from fractions import Fraction as F

import simnet

POP = [
    {'label': 'A', 'group': 'G', 'location': 'L', 'kind': 'plain'},
    {'label': 'B', 'group': 'G', 'location': 'L', 'kind': 'plain'},
    {'label': 'Z', 'group': 'H', 'location': 'K', 'kind': 'multizone', 'zones': [[0, 0, 0, 0]] * 8},
    {'label': 'M', 'group': 'I', 'location': 'J', 'kind': 'matrix', 'height': 2, 'width': 3},
]

MODES = ('logical', 'raw', 'rgb')
REG_NAMES = ('hue', 'saturation', 'brightness', 'kelvin', 'red', 'green', 'blue', 'duration', 'time')
U16 = 65535
U32 = 2 ** 32 - 1

# command kind -> (script text, events it must produce as (label, method))
KINDS = {
    'light': ('set "A"', [('A', 'set_color')]),
    'group': ('set group "G"', [('A', 'set_color'), ('B', 'set_color')]),
    'location': ('set location "L"', [('A', 'set_color'), ('B', 'set_color')]),
    'all': ('set all', [('*', 'set_color_all_lights')]),
    'zone': ('set "Z" zone 2 4', [('Z', 'set_zone_color')]),
    'matrix': ('set "M" row 0 column 1', [('M', 'set_tile_state')]),
    'power_light': ('on "A"', [('A', 'set_power')]),
    'power_group': ('on group "G"', [('A', 'set_power'), ('B', 'set_power')]),
    'power_location': ('on location "L"', [('A', 'set_power'), ('B', 'set_power')]),
    'power_all': ('on all', [('*', 'set_power_all_lights')]),
}
COLOR_KINDS = ('light', 'group', 'location', 'all', 'zone', 'matrix')
POWER_KINDS = ('power_light', 'power_group', 'power_location', 'power_all')


def num_text(v):
    """a number as the script language writes it (no exponent; `-` prefix for negatives)"""
    if isinstance(v, int):
        return str(v)
    if v == int(v) and abs(v) < 1e15:
        # keep it a float in the VM: "120.0"
        return format(Decimal(v), 'f') if '.' in format(Decimal(v), 'f') else str(int(v)) + '.0'
    return format(Decimal(v), 'f')


def frac_text(v):
    f = F(v)
    return '{}/{}'.format(f.numerator, f.denominator)


class Case:
    """register contents (Python numbers as the VM will hold them), a unit mode and a
    command kind"""
    __slots__ = ('mode', 'regs', 'kind', 'off', 'tag')

    def __init__(self, mode, regs, kind='light', off=False, tag=''):
        self.mode = mode
        self.regs = regs          # dict name -> int | float ; missing = not set (0)
        self.kind = kind
        self.off = off
        self.tag = tag

    def reg(self, name):
        return self.regs.get(name, 0)

    def setup_text(self):
        return ' '.join('{} {}'.format(n, num_text(self.regs[n])) for n in REG_NAMES
                        if n in self.regs)

    def command_text(self):
        text = KINDS[self.kind][0]
        if self.off:
            text = text.replace('on ', 'off ', 1)
        return text

    def script(self):
        return 'units {}\n{} {}\n'.format(self.mode, self.setup_text(), self.command_text())

    def driver_regs(self, power=None):
        """the register arguments of u.emit / u.switch"""
        p = (not self.off) if power is None else power
        return [self.mode] + [frac_text(self.reg(n)) for n in REG_NAMES] + ['1' if p else '0']

    def describe(self):
        return {'mode': self.mode, 'kind': self.kind,
                'regs': {k: repr(v) for k, v in self.regs.items()}, 'script': self.script()}


class Bench:
    """the real VM + wrappers on a simulated network"""

    def __init__(self):
        self.net, self.light_set, self.trace = simnet.install(POP)
        from bardolph.controller.script_job import ScriptJob
        self.ScriptJob = ScriptJob
        self.scripts_run = 0

    def run(self, text):
        """-> (events, trace, finished, job); events are device_calls in order"""
        self.net.clear_log()
        del self.trace[:]
        job = self.ScriptJob.from_string(text)
        if job.program is None:
            return None, [], False, job
        job.execute()
        self.scripts_run += 1
        events = simnet.device_calls(self.net)
        trace = list(self.trace)
        finished = bool(trace) and trace[-1] == ('flush',)
        return events, trace, finished, job

    def run_batch(self, mode, cases):
        """Runs the cases (all of one unit mode) in as few scripts as possible; returns for
        every case the list of events its command produced, or 'aborted' when the script
        stopped at that command (the rest is re-run in a fresh script)."""
        results = [None] * len(cases)
        start = 0
        while start < len(cases):
            lines = ['units ' + mode]
            for c in cases[start:]:
                lines.append(c.setup_text() + ' ' + c.command_text())
            events, _, finished, job = self.run('\n'.join(lines) + '\n')
            if events is None:
                raise RuntimeError('generated script rejected: ' + job.compile_errors[:300])
            pos = 0
            i = start
            while i < len(cases):
                want = KINDS[cases[i].kind][1]
                got = events[pos:pos + len(want)]
                if len(got) == len(want) and all((g[0], g[1]) == w for g, w in zip(got, want)):
                    results[i] = got
                    pos += len(want)
                    i += 1
                else:
                    break
            if i < len(cases):
                if finished and pos >= len(events):
                    # the command ran but transmitted nothing
                    results[i] = 'silent'
                elif finished:
                    results[i] = ('unexpected', events[pos:pos + 3])
                else:
                    results[i] = 'aborted'
                i += 1
            start = i
        return results


def event_fields(kind, events):
    """-> list of (colour list | None, power | None, duration) — one per device addressed"""
    out = []
    for _, method, args in events:
        if method in ('set_color', 'set_color_all_lights'):
            out.append((args[0], None, args[1]))
        elif method == 'set_zone_color':
            out.append((args[2], None, args[3]))
        elif method == 'set_tile_state':
            out.append((args[0][1], None, args[1]))
        elif method in ('set_power', 'set_power_all_lights'):
            out.append((None, args[0], args[1]))
    return out


# ---------------------------------------------------------------- exact specification
def clamp(x, lo, hi):
    return lo if x < lo else hi if x > hi else x


def textbook_hsv(r, g, b):
    """hue (fraction of the circle), saturation, value of an RGB colour — the usual
    definition (hexcone model), written independently of colorsys"""
    mx, mn = max(r, g, b), min(r, g, b)
    delta = mx - mn
    if delta == 0:
        hp = F(0)
    elif mx == r:
        hp = ((g - b) / delta) % 6
    elif mx == g:
        hp = (b - r) / delta + 2
    else:
        hp = (r - g) / delta + 4
    return hp / 6, (F(0) if mx == 0 else delta / mx), mx


def alt_hsv_to_rgb(h, s, v):
    """HSV -> RGB by the `k = (n + 6h) mod 6` formulation (independent of colorsys)"""
    def f(n):
        k = (n + h * 6) % 6
        return v - v * s * max(F(0), min(k, 4 - k, F(1)))
    return f(5), f(3), f(1)


def spec_color(case):
    """per component (target Fraction | None, circular?) for hue, sat, bri, kelvin"""
    m = case.mode
    k = (clamp(F(case.reg('kelvin')), 0, U16), False)
    if m == 'raw':
        return [(clamp(F(case.reg(n)), 0, U16), False)
                for n in ('hue', 'saturation', 'brightness')] + [k]
    if m == 'logical':
        h = F(case.reg('hue')) % 360 / 360 * U16
        s = clamp(F(case.reg('saturation')) / 100 * U16, 0, U16)
        b = clamp(F(case.reg('brightness')) / 100 * U16, 0, U16)
        return [(h, True), (s, False), (b, False), k]
    r, g, b = (F(case.reg(n)) / 100 for n in ('red', 'green', 'blue'))
    if not all(0 <= x <= 1 for x in (r, g, b)):
        return [(None, False)] * 3 + [k]
    h, s, v = textbook_hsv(r, g, b)
    return [(h * U16, True), (s * U16, False), (v * U16, False), k]


def spec_duration(case):
    d = F(case.reg('duration'))
    return clamp(d if case.mode == 'raw' else d * 1000, 0, U32)


def distance(wire, target, circular):
    d = abs(wire - target)
    if circular:
        d = min(d, abs(U16 - d))
    return d


HALF = F(1, 2)
KNIFE = F(1, 10 ** 6)


def tie_margin(unrounded):
    """how far the exact pre-rounding values are from a rounding tie (k + 1/2)"""
    best = None
    for u in unrounded:
        frac = u - (u.numerator // u.denominator)
        d = abs(frac - HALF)
        best = d if best is None or d < best else best
    return best


def hue_float_slack(r, g, b, scale):
    """The hue of an rgb colour divides by (max - min): the float result carries an absolute
    error of a few ulp / (relative spread).  Bound used to class a difference as numeric:
    scale/6 * 32 * 2^-53 * max/(max-min), at least 1e-6 raw units worth."""
    vals = [max(F(0), F(x)) for x in (r, g, b)]
    mx, mn = max(vals), min(vals)
    if mx == mn:
        return F(0)
    return F(scale, 6) * 32 * F(1, 2 ** 53) * mx / (mx - mn)
