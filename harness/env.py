"""Configure the repository's dependency injection for in-process checks."""
import logging
import sys

from core import REPO

if REPO not in sys.path:
    sys.path.insert(0, REPO)

logging.disable(logging.CRITICAL)


class RecordingClock:
    """Stands in for bardolph.lib.clock.Clock: records what the VM asks of it."""

    def __init__(self, trace=None):
        self.trace = trace if trace is not None else []

    def start(self):
        pass

    def stop(self):
        pass

    def reset(self):
        pass

    def pause_for(self, delay):
        self.trace.append(('pause', delay))

    def wait_until(self, pattern):
        self.trace.append(('wait_until', pattern))

    def wait(self):
        return True


class ListOutput:
    def __init__(self, trace=None):
        self.trace = trace if trace is not None else []

    def out(self, output):
        self.trace.append(('out', output))

    def newline(self):
        self.trace.append(('newline',))

    def flush(self):
        self.trace.append(('flush',))


def configure_basic(trace=None, settings_overrides=None):
    """injection + settings + runtime + recording clock/output; no lights."""
    from bardolph.lib import i_lib, injection, settings
    from bardolph.runtime import runtime_module
    injection.configure()
    conf = {'log_level': logging.CRITICAL, 'log_to_console': True,
            'single_light_discover': True, 'use_fakes': True, 'sleep_time': 0.0}
    conf.update(settings_overrides or {})
    settings.using(conf).configure()
    trace = trace if trace is not None else []
    clock = RecordingClock(trace)
    injection.bind_instance(clock).to(i_lib.Clock)
    injection.bind_instance(ListOutput(trace)).to(i_lib.Output)
    runtime_module.configure()
    return trace
